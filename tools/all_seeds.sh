#!/bin/bash
# all_seeds.sh: every seeded change against the quick check of the property it was written for.
# One line per seed: "<seed> <property> exit=<code> <n> VIOLATION line(s)"; exit 1 if any seed goes undetected.
cd /verif || exit 2
bad=0
for d in seeded/C*-*/; do
  id=$(basename "$d"); p=${id%%-*}
  line=$(tools/run_seed.sh "$id" "$p" 2>&1 | grep "^\[$id\]" | head -1 | cut -c1-60)
  echo "$line"
  case "$line" in
    *"exit=1 "*) ;;
    *) if grep -q '"undetected": true' "$d/meta.json" 2>/dev/null; then echo "  (recorded as not detected: see meta.json)"; else bad=1; echo "  UNDETECTED: $id"; fi;;
  esac
done
git -C /repo status --short | head -3
exit $bad
