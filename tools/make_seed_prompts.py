#!/usr/bin/env python3
"""make_seed_prompts.py <round number> : writes /tmp/prompt<R>-<ID>.txt for every property.

The prompt is the one of seeded/PROMPT.template.md with the property text taken from
properties.jsonl and the ideas of all earlier rounds (seeded/<ID>-*/meta.json 'change') listed as
not to be reused. Nothing else from /verif goes into it."""
import glob, json, os, sys
R = sys.argv[1]
props = [json.loads(l) for l in open('/verif/properties.jsonl')]
for p in props:
    pid = p['id']; wt = f"/tmp/wt{R}-{pid}"; demo = f"demo{R}_{pid.lower()}"
    ideas = []
    for d in sorted(glob.glob(f"/verif/seeded/{pid}-*")):
        try: ideas.append(json.load(open(d + '/meta.json'))['change'])
        except Exception: pass
    others = []
    if len(sys.argv) > 2 and sys.argv[2] == '--all-ideas':
        # from round E on: also the ideas used for the other properties (several round-D changes
        # were repeats of an idea that an agent for another property had had before)
        for d in sorted(glob.glob("/verif/seeded/C*-*")):
            if os.path.basename(d).startswith(pid + '-'):
                continue
            try: others.append(json.load(open(d + '/meta.json'))['change'])
            except Exception: pass
        others = sorted(set(others))
    files = ', '.join(p['anchors']['files'])
    avoid = ''
    if ideas:
        avoid = ("Earlier exercises already used the following ideas, so do NOT use them or close variants of them "
                 "(pick a different function AND a different mechanism; if possible a part of the code that none of them touches):\n"
                 + ''.join(f'  {i+1}. "{x}"\n' for i, x in enumerate(ideas)) + "\n")
    if others:
        avoid += ("Exercises for OTHER properties of the same library used the following ideas; do not reuse any of them either:\n"
                  + ''.join(f'  - "{x[:160]}"\n' for x in others) + "\n")
    text = f"""You are helping to evaluate a verification effort for the Rust library kaist-cp/circ (concurrent reference-counted pointers Rc/AtomicRc/Weak with immediate recursive reclamation on top of a modified crossbeam-style epoch-based reclamation).

Your own scratch git worktree of the library is at {wt} (work ONLY there; do not read or touch /repo, /verif or any other worktree). It builds offline: use `cargo build --offline` / `cargo test --offline` inside it (no network is available). Lines such as `vpoint!(...)`, `vevent!(...)` and items under `#[cfg(feature = "circ_verif")]` are inert instrumentation (they expand to nothing unless the cargo feature `circ_verif` is enabled); leave them alone, but you may use them in your demonstration if you find them useful (see src/verif.rs: with the feature on, a test can install callbacks that are invoked before shared-memory accesses, which lets a demonstration force a particular interleaving deterministically).

Here is a semantic property the library is supposed to guarantee:

  [{pid}] {p['title']}
  {p['statement']}
  It must hold: {p['quantifier']['text']}

{avoid}IMPORTANT: never use `git stash` (the stash is shared between sibling worktrees); to test without your change use `git diff -- src > {wt}/my.diff; git apply -R {wt}/my.diff` and re-apply with `git apply {wt}/my.diff`.

YOUR TASK: produce ONE realistic change (a plausible bug a maintainer could introduce: a wrong condition, a dropped step, a reordered pair of operations, an off-by-one, two sites that each look fine alone...) to the library sources under {wt}/src that BREAKS this property while
  (a) the crate still compiles, and
  (b) the repository's existing test suite still passes: `cargo test --offline` in the worktree (run it at least twice; all tests must pass), and
  (c) the breakage needs something SPECIFIC to manifest - a particular interleaving of threads, a particular multi-step sequence of operations, an unusual input, a particular alignment of the internal epoch counter, or two cooperating sites - i.e. NOT something that ordinary use would expose at once.
Prefer changes in the code paths the property depends on ({files}). Do not change public signatures. Keep the change small (a few lines).

Also produce a DEMONSTRATION: a Rust integration test file (put it at {wt}/tests/{demo}.rs) or a small example program that FAILS (assertion failure / wrong observable result / detects the premature destruction, leak, wrong return value, etc.) with your change applied and PASSES on the unmodified worktree. The demonstration should be deterministic or nearly so (if it needs an interleaving, force it, e.g. with the circ_verif hooks, barriers, or by making the racing step happen inside a destructor/closure you control). Verify BOTH directions yourself (with the change: demo fails; without the change: demo passes).

When done, leave in the worktree: your source change applied (uncommitted is fine) and the demo file. Then write the following files into {wt}/_out/: `patch.diff` (output of `git diff -- src` for the source change ONLY, not including the demo), a copy of the demo file, and `NOTES.md` stating: what you changed and why it breaks the property, what exactly it needs in order to manifest, the exact commands you ran and their outcomes (suite with change: pass; demo with change: fail; demo without change: pass). Reply with a short summary of the same. Do not spend effort on more than one change; if your first idea turns out to be caught by the existing tests or to not break the property, pick another.
"""
    open(f"/tmp/prompt{R}-{pid}.txt", 'w').write(text)
print("written", len(props))
