#!/bin/bash
# confirm_seed.sh <worktree> <seed-id> <demo test name> [cargo feature flags for the demo]
# Confirms in the scratch worktree: suite passes with the change; demo fails with it, passes without it.
# Copies patch.diff / demo / notes into /verif/seeded/<seed-id>/ and prints a summary for meta.json.
set -u
wt="$1"; id="$2"; demo="$3"; shift 3; feat="$*"
out=/verif/seeded/$id; mkdir -p "$out"
cd "$wt" || exit 2
export CARGO_NET_OFFLINE=true
git diff -- src > "$out/patch.diff"
[ -s "$out/patch.diff" ] || { echo "empty patch"; exit 2; }
cp "tests/$demo.rs" "$out/" 2>/dev/null
cp _out/NOTES.md "$out/NOTES.agent.md" 2>/dev/null
mv "tests/$demo.rs" "/tmp/$demo.rs.aside"
echo "== suite with change (demo moved aside)"; cargo test --offline --no-fail-fast 2>&1 | grep -E "^test result|FAILED|panicked" | sort | uniq -c
mv "/tmp/$demo.rs.aside" "tests/$demo.rs"
echo "== demo with change (expect failure)"; cargo test --offline $feat --test "$demo" 2>&1 | grep -E "^test result|FAILED|panicked" | head -5
# (no git stash: the stash is shared by all worktrees of one repository)
git apply -R "$out/patch.diff"
echo "== demo without change (expect pass)"; cargo test --offline $feat --test "$demo" 2>&1 | grep -E "^test result|FAILED|panicked" | head -5
git apply "$out/patch.diff"
