#!/bin/bash
# coverage.sh [tier]: which lines of /repo/src does a tier of the checks execute at all?
# Builds circ-mc with source-based coverage (nightly toolchain) in a scratch directory, runs every
# check of the tier with evidence and replays redirected, and writes the per-file summary plus the
# list of never-executed lines to /verif/notes/coverage-<tier>.txt. A line that no check executes is
# behaviour no check can be said to cover; the converse does not hold.
set -u
tier=${1:-quick}
S=/tmp/circ-cov; rm -rf $S; mkdir -p $S/raw $S/out
B=$(dirname "$(rustc +nightly --print target-libdir)")/bin
cd /verif/mc || exit 2
CARGO_TARGET_DIR=$S/target RUSTFLAGS="-C instrument-coverage" cargo +nightly build --release --offline 2>&1 | tail -1
for p in C01 C02 C03 C04 C05 C06 C07 C08 C09 C10 C11 C12 C13 C14 C15 C16 C17 C18 C19 C20; do
  VERIF_OUT=$S/out LLVM_PROFILE_FILE=$S/raw/%p-%m.profraw $S/target/release/circ-mc check $p $tier > $S/q.out 2>&1
  echo "$p exit=$? $(tail -1 $S/q.out | cut -c1-110)"
done
$B/llvm-profdata merge -sparse $S/raw/*.profraw -o $S/all.profdata && rm -rf $S/raw
out=/verif/notes/coverage-$tier.txt
{
  echo "# coverage of /repo/src by the $tier tier ($(git -C /repo rev-parse --short HEAD), $(date -u +%F))"
  printf "%-30s %7s %7s %8s\n" file lines missed cover
  $B/llvm-cov report $S/target/release/circ-mc -instr-profile=$S/all.profdata --sources /repo/src 2>/dev/null | awk 'NF>=10 && $1!="Filename" {printf "%-30s %7s %7s %8s\n",$1,$8,$9,$10}'
  echo; echo "# never-executed lines"
  for f in $(cd /repo/src && find . -name '*.rs' | sort); do
    miss=$($B/llvm-cov show $S/target/release/circ-mc -instr-profile=$S/all.profdata --sources /repo/src/$f 2>/dev/null | grep -E "^\s+[0-9]+\|\s+0\|" | cut -c1-140)
    [ -n "$miss" ] && { echo "== $f"; echo "$miss"; }
  done
} > $out
rm -rf $S
echo "written $out"
