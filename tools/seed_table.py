#!/usr/bin/env python3
"""seed_table.py <round letter>: the DESIGN.md table of one seeding round, generated from seeded/*/meta.json."""
import glob, json, os, sys
r = sys.argv[1]
print("| seed | change | needs | caught at once | caught by (quick tier unless noted) |")
print("|---|---|---|---|---|")
for d in sorted(glob.glob(f"/verif/seeded/C*-{r}")):
    m = json.load(open(os.path.join(d, "meta.json")))
    once = "yes" if not m.get("missed_by") else "**no** → strengthened"
    by = "; ".join(f"{k}: {v}" for k, v in m["caught_by"].items()) or "**not detected** (see meta.json)"
    esc = lambda s: str(s).replace("|", "\\|")
    print(f"| {os.path.basename(d)} | {esc(m['change'])} | {esc(m['needs'])} | {once} | {esc(by)} |")
