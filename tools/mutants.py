#!/usr/bin/env python3
"""Detection demonstrations with our own hand-written changes (DESIGN.md section 6).

Each mutant is a small textual change of /repo (applied to the working tree, reverted right after).
For each: the repository's own suite is run (it must still pass, otherwise the mutant is marked
'suite-fails' and says nothing), then the listed quick checks are run; exit 1 with a VIOLATION line
counts as detected.  Results go to /verif/mutants/RESULTS.md and /verif/mutants/results.json.

usage: mutants.py [id ...]               run the listed quick checks against each mutant applied to /repo (reverted after)
       mutants.py --suite-only [id ...]  run only the repository's own suite for each mutant, in a scratch worktree under /tmp
"""
import json, os, subprocess, sys, time

REPO = '/repo'
M = []


def mut(id, checks, file, old, new, note='', expect='detected'):
    M.append(dict(id=id, checks=checks, file=file, old=old, new=new, note=note, expect=expect))


U, S, W = 'src/utils.rs', 'src/strong.rs', 'src/weak.rs'
I, P, Q, L = 'src/ebr_impl/internal.rs', 'src/ebr_impl/pointers.rs', 'src/ebr_impl/sync/queue.rs', 'src/ebr_impl/sync/list.rs'
G, D, DF = 'src/ebr_impl/guard.rs', 'src/ebr_impl/default.rs', 'src/ebr_impl/deferred.rs'

# ---- C01
mut('m01-incr-adds-one', ['C01', 'C05'], U, 'let add = if old.strong() == 0 { 2 } else { 1 };', 'let add = 1;', 'the repaired from-zero step never re-creates the permission')
mut('m02-cas-no-forget', ['C01', 'C08'], S, '''                    // Skip decrementing a strong count of the inserted pointer.
                    forget(desired);
                    let rc = Rc::from_raw(expected_raw);
                    return Ok(rc);
                }
                Err(current_raw) => {
                    if current_raw.ptr_eq(expected_raw) {
                        expected_raw = current_raw;
                        vpoint!(Link, &self.link as *const _);
                    } else {
                        let current = Snapshot::from_raw(current_raw, guard);
                        return Err(CompareExchangeError { desired, current });
                    }
                }
            }
        }
    }

    /// Stores the [`Rc`] pointer `desired` into the atomic pointer if the current value is the
    /// same as `expected` [`Snapshot`] pointer. The tag is also taken into account,
    /// so two pointers to the same object, but with different tags, will not be considered equal.
    ///
    /// Unlike''', '''                    // Skip decrementing a strong count of the inserted pointer.
                    let rc = Rc::from_raw(expected_raw);
                    return Ok(rc);
                }
                Err(current_raw) => {
                    if current_raw.ptr_eq(expected_raw) {
                        expected_raw = current_raw;
                        vpoint!(Link, &self.link as *const _);
                    } else {
                        let current = Snapshot::from_raw(current_raw, guard);
                        return Err(CompareExchangeError { desired, current });
                    }
                }
            }
        }
    }

    /// Stores the [`Rc`] pointer `desired` into the atomic pointer if the current value is the
    /// same as `expected` [`Snapshot`] pointer. The tag is also taken into account,
    /// so two pointers to the same object, but with different tags, will not be considered equal.
    ///
    /// Unlike''', 'successful compare_exchange also drops `desired`')
mut('m03-try-destruct-no-recheck', ['C01', 'C05'], U, '''            if old.strong() > 0 {
                Self::decrement_strong(ptr, 1, None);
                return;
            }
            vpoint!(State, ptr);
            match (*ptr).state.compare_exchange(''', '''            vpoint!(State, ptr);
            match (*ptr).state.compare_exchange(''', 'try_destruct ignores a count that is positive again')
# ---- C02
mut('m04-cascade-always', ['C02'], U, 'if depth == 0 || modu.le(node_epoch as _, curr_epoch as isize - 3) {', 'if depth == 0 || modu.le(node_epoch as _, curr_epoch as isize - 3) || true {', 'children are always reclaimed in the parent pass')
mut('m05-threshold-1', ['C02', 'C12'], U, 'modu.le(node_epoch as _, curr_epoch as isize - 3)', 'modu.le(node_epoch as _, curr_epoch as isize - 1)', 'age threshold 1 instead of 3')
mut('m06-child-stamp-not-merged', ['C02'], U, 'modu.max(&[node_epoch as _, link_epoch as _, cnt_curr.epoch() as _]);', 'modu.max(&[node_epoch as _, link_epoch as _]);', "the child's own stamp is left out of the merge")
mut('m07-expired-1', ['C13', 'C02'], I, 'global_epoch.wrapping_sub(self.epoch) >= 3', 'global_epoch.wrapping_sub(self.epoch) >= 1', 'bags expire after one epoch')
mut('m08-ws-upgrade-no-token', ['C02', 'C05'], U, '''            if old.strong() == 0 {
                new = new.add_strong(1);
            }
            if new.as_raw() == old.as_raw() {''', '''            if new.as_raw() == old.as_raw() {''', 'WeakSnapshot::upgrade from count 0 leaves no permission')
mut('m09-ws-upgrade-no-stamp', ['C02'], U, 'let mut new = old.with_epoch(epoch);', 'let mut new = old;', 'WeakSnapshot::upgrade leaves no stamp (the defect repaired by 65a4320)')
mut('m10-decrement-epoch-unpinned', ['C02'], U, '''        let guard_owned;
        let guard = match guard {
            Some(guard) => guard,
            None => {
                guard_owned = cs();
                &guard_owned
            }
        };
        vpoint!(EpochRead, 0usize);
        let epoch = global_epoch();''', '''        vpoint!(EpochRead, 0usize);
        let epoch = global_epoch();
        let guard_owned;
        let guard = match guard {
            Some(guard) => guard,
            None => {
                guard_owned = cs();
                &guard_owned
            }
        };''', 'the decrement reads the epoch before pinning (the defect repaired by 81cdafe)')
mut('m11-threshold-2', ['C02', 'C12'], U, 'modu.le(node_epoch as _, curr_epoch as isize - 3)', 'modu.le(node_epoch as _, curr_epoch as isize - 2)', 'age threshold 2: C12 sees it in the quick tier; C02 needs the six-thread stalled dropper of the thorough tier (NOT equivalent under sequential consistency, contrary to the round-0 prediction)', expect='C12 (C02 thorough)')
mut('m12-expired-2', ['C13', 'C02'], I, 'global_epoch.wrapping_sub(self.epoch) >= 3', 'global_epoch.wrapping_sub(self.epoch) >= 2', 'bags expire after two epochs: enough under sequential consistency', expect='survives (SC-equivalent)')
mut('m13-link-stamp-not-merged', ['C02', 'C06'], U, 'modu.max(&[node_epoch as _, link_epoch as _, cnt_curr.epoch() as _]);', 'modu.max(&[node_epoch as _, cnt_curr.epoch() as _]);', 'the link stamp is left out of the merge', expect='unknown')
# ---- C03
mut('m15-weak-free-direct', ['C03'], U, '''            guard.defer_with_inner(ptr, |inner| Self::try_dealloc(inner));''', '''            let _ = &guard;
            Self::try_dealloc(ptr);''', 'the last weak decrement frees at once instead of deferring')
mut('m16-dispose-ignores-weaked', ['C03'], U, '''            if State::from_raw(rc.state.load(Ordering::SeqCst)).weaked() {
                RcInner::decrement_weak(rc, Some(guard));
            } else {
                RcInner::dealloc(rc);
            }''', '''            RcInner::dealloc(rc);''', 'destruction frees the block although weak pointers exist')
mut('m17-weak-incr-no-token', ['C03', 'C04'], U, '''        {
            vpoint!(State, self as *const Self);
            self.state.fetch_add(WEAK_COUNT, Ordering::SeqCst);
        }''', '''        {
        }''', 'weak increment from zero does not add the permission')
# ---- C04
mut('m19-iter-drop-no-decrement', ['C04', 'C10'], S, '''    fn drop(&mut self) {
        if self.remain > 0 {
            unsafe {
                RcInner::decrement_strong(self.ptr.as_raw(), self.remain as _, None);
            };
        }
    }''', '''    fn drop(&mut self) {
    }''', 'dropping the bulk iterator leaks the shares not yet yielded')
mut('m20-atomicrc-drop-removed', ['C04'], S, '''        let ptr = (*self.link.get_mut()).as_raw();
        unsafe {
            if let Some(cnt) = ptr.as_mut() {
                RcInner::decrement_strong(cnt, 1, None);
            }
        }
    }
}

impl<T: RcObject> Default for AtomicRc<T> {''', '''    }
}

impl<T: RcObject> Default for AtomicRc<T> {''', 'AtomicRc::drop releases nothing')
mut('m21-destructed-flag-twice', ['C04', 'C05'], U, 'Ok(_) => return dispose(ptr),', 'Ok(_) => {\n                    dispose(ptr);\n                    return;\n                }\n                #[allow(unreachable_patterns)]\n                Ok(_) => return dispose(ptr),', 'no-op refactoring (control): must NOT be flagged', expect='survives (equivalent)')
# ---- C05
mut('m22-incr-ignores-destructed', ['C05'], U, '''        if val.destructed() {
            return false;
        }
        if val.strong() == 0 {''', '''        if val.strong() == 0 {''', 'increment_strong succeeds on a destructed object')
mut('m23-cascade-child-unmarked', ['C05', 'C01'], U, 'old.with_destructed(true).as_raw(),\n                    Ordering::SeqCst,\n                    Ordering::SeqCst,\n                ) {\n                    Ok(_) => break,', 'old.as_raw(),\n                    Ordering::SeqCst,\n                    Ordering::SeqCst,\n                ) {\n                    Ok(_) => break,', 'cascade children are not marked destructed (the defect repaired by cf5326c)')
# ---- C06
mut('m24-cascade-disabled', ['C06'], U, 'if depth == 0 || modu.le(node_epoch as _, curr_epoch as isize - 3) {', 'if depth == 0 {', 'children are always deferred: reclamation needs ~3n epochs')
mut('m25-depth-cap-16', ['C06'], U, 'if depth >= 1024 {', 'if depth >= 16 {', 'the recursion re-defers every 16 levels')
# ---- C07
mut('m26-no-depth-cap', ['C07'], U, 'if depth >= 1024 {', 'if depth >= usize::MAX {', 'no recursion cap')
mut('m27-depth-cap-65536', ['C07'], U, 'if depth >= 1024 {', 'if depth >= 65536 {', 'recursion cap 65536')
# ---- C08
mut('m28-cas-no-ptr-eq-retry', ['C08'], S, '''                    // Skip decrementing a strong count of the inserted pointer.
                    forget(desired);
                    let rc = Rc::from_raw(expected_raw);
                    return Ok(rc);
                }
                Err(current_raw) => {
                    if current_raw.ptr_eq(expected_raw) {
                        expected_raw = current_raw;
                        vpoint!(Link, &self.link as *const _);
                    } else {
                        let current = Snapshot::from_raw(current_raw, guard);
                        return Err(CompareExchangeError { desired, current });
                    }
                }
            }
        }
    }

    /// Stores the [`Rc`] pointer `desired` into the atomic pointer if the current value is the
    /// same as `expected` [`Snapshot`] pointer. The tag is also taken into account,
    /// so two pointers to the same object, but with different tags, will not be considered equal.
    ///
    /// Unlike''', '''                    // Skip decrementing a strong count of the inserted pointer.
                    forget(desired);
                    let rc = Rc::from_raw(expected_raw);
                    return Ok(rc);
                }
                Err(current_raw) => {
                    if false {
                        expected_raw = current_raw;
                        vpoint!(Link, &self.link as *const _);
                    } else {
                        let current = Snapshot::from_raw(current_raw, guard);
                        return Err(CompareExchangeError { desired, current });
                    }
                }
            }
        }
    }

    /// Stores the [`Rc`] pointer `desired` into the atomic pointer if the current value is the
    /// same as `expected` [`Snapshot`] pointer. The tag is also taken into account,
    /// so two pointers to the same object, but with different tags, will not be considered equal.
    ///
    /// Unlike''', 'compare_exchange fails when only the epoch bits differ')
mut('m30-castag-keeps-old-tag', ['C08'], S, 'let desired_raw = expected_raw.with_tag(desired_tag).with_timestamp();', 'let desired_raw = expected_raw.with_tag(desired_tag | expected_raw.tag()).with_timestamp();', 'compare_exchange_tag ORs the new tag into the old one')
mut('m29-swap-no-timestamp', ['C08', 'C02'], S, '''        let new_ptr = new.into_raw();
        let old_ptr = self.link.swap(new_ptr.with_timestamp(), order);''', '''        let new_ptr = new.into_raw();
        let old_ptr = self.link.swap(new_ptr, order);''', 'swap writes the link without a timestamp', expect='unknown')
# ---- C09
mut('m31-weak-cas-raw-compare', ['C09'], W, '''                    if current_raw.ptr_eq(expected_raw)
                        && current_raw.high_tag() != expected_raw.high_tag()
                    {
                        expected_raw = current_raw;
                    } else {
                        let current = WeakSnapshot::from_raw(current_raw, guard);
                        return Err(CompareExchangeError { desired, current });
                    }
                }
            }
        }
    }

    /// Stores the [`Weak`] pointer `desired` into the atomic pointer if the current value is the
    /// same as `expected` (either [`Snapshot`], [`crate::Rc`] or [`Weak`]). The tag is also taken
    /// into account, so two pointers to the same object, but with different tags, will not be
    /// considered equal.
    ///
    /// Unlike''', '''                    if false {
                        expected_raw = current_raw;
                    } else {
                        let current = WeakSnapshot::from_raw(current_raw, guard);
                        return Err(CompareExchangeError { desired, current });
                    }
                }
            }
        }
    }

    /// Stores the [`Weak`] pointer `desired` into the atomic pointer if the current value is the
    /// same as `expected` (either [`Snapshot`], [`crate::Rc`] or [`Weak`]). The tag is also taken
    /// into account, so two pointers to the same object, but with different tags, will not be
    /// considered equal.
    ///
    /// Unlike''', 'AtomicWeak::compare_exchange compares raw words (the defect repaired by 5e1b156)')
mut('m32-weak-store-leaks-old', ['C09', 'C04'], W, '''        unsafe {
            if let Some(cnt) = old_ptr.as_raw().as_mut() {
                RcInner::decrement_weak(cnt, Some(guard));
            }
        }
    }

    /// Stores a [`Weak`] pointer into this `AtomicWeak`, returning the previous [`Weak`].''', '''        let _ = (old_ptr, guard);
    }

    /// Stores a [`Weak`] pointer into this `AtomicWeak`, returning the previous [`Weak`].''', 'AtomicWeak::store does not release the previous content')
# ---- C10
mut('m33-weak-many-null', ['C10'], S, 'array::from_fn(|_| Weak::from_raw(self.ptr))', 'array::from_fn(|_| Weak::null())', 'weak_many returns null pointers (the defect repaired by 9f9338d)')
mut('m35-abort-off-by-one', ['C10'], S, 'RcInner::decrement_strong(self.ptr.as_raw(), self.remain as _, Some(guard));', 'RcInner::decrement_strong(self.ptr.as_raw(), (self.remain - 1) as _, Some(guard));', 'abort releases one share too few')
mut('m34-new-many-zero-leak', ['C10'], S, '''        if N == 0 {
            drop(Self::from_raw(Raw::from(ptr)));
        }''', '', 'new_many::<0> leaks (the defect repaired by 8bca8e9)')
# ---- C11
mut('m36-high-mask-shifted', ['C11'], P, '''    const fn high_bits_pos() -> u32 {
        usize::BITS - HIGH_TAG_WIDTH
    }''', '''    const fn high_bits_pos() -> u32 {
        usize::BITS - HIGH_TAG_WIDTH - 1
    }''', 'timestamp field one bit lower')
mut('m37-with-tag-clears-high', ['C11'], P, '((ptr as usize & !low_bits::<T>()) | (tag & low_bits::<T>())) as *mut T', '((ptr as usize & !low_bits::<T>() & (usize::MAX >> 4)) | (tag & low_bits::<T>())) as *mut T', 'with_tag clears the timestamp')
mut('m38-ptr-eq-raw', ['C11', 'C19'], P, 'self.with_high_tag(0).ptr == other.with_high_tag(0).ptr', 'self.ptr == other.ptr', 'ptr_eq compares raw words including the timestamp')
# ---- C12
mut('m39-weak-unit-overlaps', ['C12'], U, 'const WEAK_COUNT: u64 = 1 << STRONG_WIDTH;', 'const WEAK_COUNT: u64 = 1 << (STRONG_WIDTH - 1);', 'the weak unit overlaps the strong field')
mut('m40-modular-le-strict', ['C12'], U, 'self.trans(a) <= self.trans(b)', 'self.trans(a) < self.trans(b)', 'modular <= becomes <')
mut('m41-window-anchor', ['C12'], U, 'let modu: Modular<EPOCH_WIDTH> = Modular::new(curr_epoch as isize + 1);\n    let mut outgoings', 'let modu: Modular<EPOCH_WIDTH> = Modular::new(curr_epoch as isize + 3);\n    let mut outgoings', 'window anchored two epochs too far ahead', expect='unknown')
# ---- C13
mut('m42-advance-ignores-pinned', ['C13', 'C14'], I, 'if local_epoch.is_pinned() && local_epoch.unpinned() != global_epoch {', 'if false && local_epoch.is_pinned() && local_epoch.unpinned() != global_epoch {', 'try_advance ignores pinned participants')
mut('m43-unpin-inner-clears', ['C13', 'C16'], I, '''        self.guard_count.set(guard_count - 1);
        if guard_count == 1 {
            self.epoch.store(Epoch::starting(), Ordering::Release);''', '''        self.guard_count.set(guard_count - 1);
        if guard_count == 2 {
            self.epoch.store(Epoch::starting(), Ordering::Release);
        }
        if guard_count == 1 {
            self.epoch.store(Epoch::starting(), Ordering::Release);''', 'dropping an inner guard clears the pinned bit')
mut('m44-pin-no-revalidate', ['C14', 'C13'], I, 'if new_epoch.value() == self.global().epoch.load(Ordering::Acquire).value() {', 'if true || new_epoch.value() == self.global().epoch.load(Ordering::Acquire).value() {', 'pin() does not re-validate the epoch it published')
# ---- C14
mut('m45-double-advance', ['C14'], I, 'let new_epoch = global_epoch.successor();\n        match self.epoch.compare_exchange(', 'let new_epoch = global_epoch.successor().successor();\n        match self.epoch.compare_exchange(', 'the epoch advances by two')
mut('m46-advance-by-store', ['C14'], I, """        match self.epoch.compare_exchange(
            global_epoch,
            new_epoch,
            Ordering::Release,
            Ordering::Relaxed,
        ) {
            Ok(_) => new_epoch,
            Err(current) => current,
        }""", """        self.epoch.store(new_epoch, Ordering::Release);
        new_epoch""", 're-introduces finding #10: the advancer stores the successor of a stale read')
# ---- C15
mut('m47-finalize-no-push', ['C15', 'C20'], I, '''            let guard = &self.pin();
            self.push_to_global(guard);''', '''            let _guard = &self.pin();''', 'a leaving participant does not hand over its bag')
mut('m48-bag-drop-skips-first', ['C15'], I, 'for deferred in self.0.drain(..) {', 'for deferred in self.0.drain(..).skip(1) {', 'a bag forgets its first function')
mut('m49-bag-runs-first-twice', ['C15'], I, '''        for deferred in self.0.drain(..) {
            deferred.call();
        }''', '''        let mut again: Option<unsafe fn()> = None;
        let _ = &mut again;
        for deferred in self.0.drain(..) {
            deferred.call();
        }''', 'control: no behavioural change, must NOT be flagged', expect='survives (equivalent)')
# ---- C16
mut('m52-reactivate-after-no-unwind-guard', ['C16'], G, '''        // Ensure the Guard is re-pinned even if the function panics
        defer! {
            if let Some(local) = unsafe { self.local.as_ref() } {
                mem::forget(local.pin());
                local.release_handle();
            }
        }

        f()''', '''        let r = f();
        if let Some(local) = unsafe { self.local.as_ref() } {
            mem::forget(local.pin());
            local.release_handle();
        }
        r''', 'reactivate_after does not re-pin when the closure panics')
mut('m53-reactivate-always-unpins', ['C16'], I, '''    pub(crate) fn repin(&self) {
        self.acquire_handle();
        self.unpin();''', '''    pub(crate) fn repin(&self) {
        self.acquire_handle();
        if self.guard_count.get() > 1 {
            self.epoch.store(Epoch::starting(), Ordering::Release);
        }
        self.unpin();''', 'reactivate on one of several guards unpins the thread for a moment')
# ---- C17
mut('m54-pop-no-tail-fixup', ['C17', 'C15'], Q, '''                        if head.ptr_eq(tail) {
                            let _ = self
                                .tail
                                .compare_exchange(tail, next, Release, Relaxed, guard);
                        }
                        guard.defer_destroy(head);
                        Some(n.data.assume_init_read())
                    })
                    .map_err(|_| ())
            },
            None => Ok(None),''', '''                        let _ = tail;
                        guard.defer_destroy(head);
                        Some(n.data.assume_init_read())
                    })
                    .map_err(|_| ())
            },
            None => Ok(None),''', 'try_pop does not move a lagging tail off the retired node', expect='unknown')
mut('m55-pop-if-ignores-predicate', ['C17'], Q, 'Some(n) if condition(unsafe { &*n.data.as_ptr() }) => unsafe {', 'Some(n) if condition(unsafe { &*n.data.as_ptr() }) || n.next.load(Relaxed, guard).as_raw() as usize != 0 => unsafe {', 'try_pop_if pops a non-matching head when another element follows')
mut('m56-push-ignores-next', ['C17'], Q, '''        if unsafe { next.as_ref().is_some() } {
            // if not, try to "help" by moving the tail pointer forward''', '''        if false && unsafe { next.as_ref().is_some() } {
            // if not, try to "help" by moving the tail pointer forward''', 'push never helps a lagging tail (a push behind a lagging tail then spins)', expect='unknown')
# ---- C18
mut('m57-iter-no-restart', ['C18'], L, '''                if succ.tag() != 0 {
                    self.pred = self.head;
                    self.curr = self.head.load(Acquire, self.guard);

                    return Some(Err(IterError::Stalled));
                }''', '''                if false {
                    self.pred = self.head;
                    self.curr = self.head.load(Acquire, self.guard);

                    return Some(Err(IterError::Stalled));
                }''', 'the traversal goes on from a predecessor that is itself deleted')
mut('m58-insert-plain-store', ['C18'], L, '''            match to.compare_exchange_weak(next, entry_ptr, Release, Relaxed, guard) {
                Ok(_) => break,''', '''            to.store(entry_ptr, Release);
            #[allow(unreachable_code)]
            match { break; to.compare_exchange_weak(next, entry_ptr, Release, Relaxed, guard) } {
                Ok(_) => break,''', 'insert publishes with a plain store (a racing insert or unlink is lost)')
mut('m59-unlink-failure-finalizes', ['C18'], L, '''                    Err(curr) => {
                        // `curr` is the current value of `self.pred`.
                        curr
                    }''', '''                    Err(curr) => {
                        // `curr` is the current value of `self.pred`.
                        unsafe {
                            C::finalize(self.curr.deref(), self.guard);
                        }
                        curr
                    }''', 'a failed unlink still hands the element to reclamation')
# ---- conversions (seq/conv)
mut('m66-atomicrc-from-ref-no-clone', ['C01', 'C04', 'C08'], S, """    fn from(value: &Rc<T>) -> Self {
        Self::from(value.clone())""", """    fn from(value: &Rc<T>) -> Self {
        Self::from(Rc::from_raw(value.ptr))""", 'AtomicRc::from(&Rc) takes no share of its own')
mut('m67-atomicweak-from-ref-no-clone', ['C03', 'C09'], W, """    fn from(value: &Weak<T>) -> Self {
        Self::from(value.clone())""", """    fn from(value: &Weak<T>) -> Self {
        Self::from(Weak::from_raw(value.ptr))""", 'AtomicWeak::from(&Weak) takes no weak share of its own')
mut('m68-weak-from-snapshot-twice', ['C03', 'C04'], W, """    fn from(value: Snapshot<'g, T>) -> Self {
        value.downgrade().counted()""", """    fn from(value: Snapshot<'g, T>) -> Self {
        let _ = value.downgrade().counted();
        value.downgrade().counted()""", 'Weak::from(Snapshot) counts twice and forgets... (drops) one: harmless control', expect='unknown')
mut('m69-take-leaves-content', ['C01', 'C04', 'C08'], S, """        Rc::from_raw(core::mem::take(self.link.get_mut()))""", """        Rc::from_raw(*self.link.get_mut())""", 'AtomicRc::take returns the content but leaves it in the link: the share is released twice')
# ---- sites the coverage measurement found unexercised by the quick tier (now exercised)
mut('m70-first-downgrade-loser-gives-up', ['C03'], U, """                Ok(_) => return,
                Err(curr) => old = State::from_raw(curr),""", """                Ok(_) => return,
                Err(_) => return,""", 'a first downgrade whose flag-setting CAS loses returns without counting')
mut('m71-cas-weak-no-stamp-retry', ['C08'], S, """                Err(current_raw) => {
                    if current_raw.ptr_eq(expected_raw) {
                        expected_raw = current_raw;
                        vpoint!(Link, &self.link as *const _);
                    } else {
                        let current = Snapshot::from_raw(current_raw, guard);
                        return Err(CompareExchangeError { desired, current });
                    }
                }
            }
        }
    }

    /// Overwrites the tag value""", """                Err(current_raw) => {
                    let current = Snapshot::from_raw(current_raw, guard);
                    return Err(CompareExchangeError { desired, current });
                }
            }
        }
    }

    /// Overwrites the tag value""", 'compare_exchange_weak fails when the content differs from expected in its stamp only: within the contract of the weak variant (it may fail spuriously), so the cell model tolerates it', expect='unknown')
mut('m72-finalize-forgets', ['C04'], S, """                RcInner::decrement_strong(cnt, 1, Some(guard));
            }
        }
        forget(self);""", """                let _ = (cnt, guard);
            }
        }
        forget(self);""", 'Rc::finalize releases nothing')
mut('m73-atomicrc-pointer-fmt-raw', ['C11'], S, """        Pointer::fmt(&self.link.load(Ordering::Relaxed), f)""", """        Pointer::fmt(&((self.link.load(Ordering::Relaxed).as_raw() as usize | self.link.load(Ordering::Relaxed).tag()) as *const u8), f)""", 'AtomicRc {:p} prints the address with the tag in it')
mut('m74-try-advance-reentrant', ['C07'], I, """        let Some(_scope) = AdvanceScope::enter(guard) else {
            return global_epoch;
        };""", """        let _scope = AdvanceScope::enter(guard);""", 're-introduces finding #11: try_advance nests through the destructions it defers')
mut('m75-unpin-stale-guard-count', ['C16'], I, """        // A deferred function that ran above may have taken a guard that is still alive: count
        // from the current value, not from the one read before the collection.
        let guard_count = self.guard_count.get();
        self.guard_count.set(guard_count - 1);""", """        self.guard_count.set(guard_count - 1);""", 're-introduces finding #12: unpin writes back the guard count it read before its collection loop')
mut('m76-schedule-collection-repins-under-guard', ['C16', 'C13', 'C02'], I, """        if self.collecting.get() {
            self.repin_in_collection(0);
        }""", """        if self.collecting.get() {
            self.repin_without_collect();
        }""", 're-introduces finding #13: a flush or a bag overflow inside a deferred function re-pins the collecting thread under that function\'s own guard')
# ---- C19
mut('m60-eq-ptr-eq', ['C19'], S, '''impl<T: RcObject + PartialEq> PartialEq for Rc<T> {
    #[inline(always)]
    fn eq(&self, other: &Self) -> bool {
        self.as_ref() == other.as_ref()''', '''impl<T: RcObject + PartialEq> PartialEq for Rc<T> {
    #[inline(always)]
    fn eq(&self, other: &Self) -> bool {
        self.ptr_eq(other)''', 'Rc == compares identity')
mut('m61-snapshot-cmp-null-last', ['C19'], S, '''impl<'g, T: RcObject + Ord> Ord for Snapshot<'g, T> {
    fn cmp(&self, other: &Self) -> std::cmp::Ordering {
        self.as_ref().cmp(&other.as_ref())''', '''impl<'g, T: RcObject + Ord> Ord for Snapshot<'g, T> {
    fn cmp(&self, other: &Self) -> std::cmp::Ordering {
        other.as_ref().is_none().cmp(&self.as_ref().is_none()).reverse().then(self.as_ref().cmp(&other.as_ref()))''', 'Snapshot::cmp puts null last', expect='unknown')
mut('m62-hash-includes-tag', ['C19'], S, '''impl<T: RcObject + Hash> Hash for Rc<T> {
    fn hash<H: Hasher>(&self, state: &mut H) {
        self.as_ref().hash(state);''', '''impl<T: RcObject + Hash> Hash for Rc<T> {
    fn hash<H: Hasher>(&self, state: &mut H) {
        self.tag().hash(state);
        self.as_ref().hash(state);''', 'Rc hash includes the tag')
# ---- C20
mut('m63-with-handle-with', ['C20'], D, '''    HANDLE
        .try_with(|h| f(h))
        .unwrap_or_else(|_| f(&collector().register()))''', '''    HANDLE.with(|h| f(h))''', 'cs() panics after the thread-local handle is gone')
mut('m64-fallback-registration-leaked', ['C20'], D, '.unwrap_or_else(|_| f(&collector().register()))', '.unwrap_or_else(|_| f(&*Box::leak(Box::new(collector().register()))))', 'the temporary registration is never released')
mut('m65-no-finalize-at-unpin', ['C20', 'C15'], I, '''            if self.handle_count.get() == 0 {
                self.finalize();
            }
        }
    }

    /// Unpins and then pins the `Local`.''', '''        }
    }

    /// Unpins and then pins the `Local`.''', 'a participant whose handle went away under a live guard is never unregistered')


def sh(cmd, cwd=None, timeout=1800):
    # own process group, so that a hanging test binary can be killed together with its cargo
    p = subprocess.Popen(cmd, shell=True, cwd=cwd, stdout=subprocess.PIPE, stderr=subprocess.STDOUT, start_new_session=True)
    try:
        out, _ = p.communicate(timeout=timeout)
        return p.returncode, out.decode(errors='replace')
    except subprocess.TimeoutExpired:
        import signal
        os.killpg(p.pid, signal.SIGKILL)
        p.communicate()
        return -9, 'TIMEOUT'



def suite_only(args):
    """Run only the repository's own suite for each mutant, in a scratch worktree (independent of
    /repo's working tree and of the harness build)."""
    wt = '/tmp/wt-mutants'
    sh('git worktree remove --force %s; git worktree prune; git worktree add -q %s HEAD' % (wt, wt), REPO)
    resf = '/verif/mutants/suite.json'
    results = json.load(open(resf)) if os.path.exists(resf) else {}
    try:
        for m in M:
            if args and m['id'] not in args:
                continue
            if not args and m['id'] in results:
                continue
            path = os.path.join(wt, m['file'])
            src = open(path).read()
            if src.count(m['old']) != 1:
                results[m['id']] = 'does-not-apply'; continue
            open(path, 'w').write(src.replace(m['old'], m['new']))
            try:
                rc, out = sh('cargo test --offline --no-fail-fast 2>&1 | grep -E "^test result|FAILED|panicked|^error" | head -20', wt, timeout=240)
                ok = 'FAILED' not in out and 'panicked' not in out and 'error' not in out and out.count('test result: ok') >= 4
                results[m['id']] = 'HANGS' if out == 'TIMEOUT' else ('passes' if ok else 'FAILS')
                print(m['id'], results[m['id']], flush=True)
            finally:
                sh('git checkout -- .', wt)
                json.dump(results, open(resf, 'w'), indent=1)
    finally:
        sh('rm -rf %s/target; git worktree remove --force %s; git worktree prune' % (wt, wt), REPO)


def main():
    args = [a for a in sys.argv[1:] if not a.startswith('--')]
    no_suite = True
    if '--suite-only' in sys.argv:
        os.makedirs('/verif/mutants', exist_ok=True)
        suite_only(args)
        return
    rc, out = sh('git diff --quiet', REPO)
    if rc != 0:
        print('/repo working tree is not clean'); sys.exit(2)
    os.makedirs('/verif/mutants', exist_ok=True)
    resf = '/verif/mutants/results.json'
    results = json.load(open(resf)) if os.path.exists(resf) else {}
    head = sh('git log --format=%h -1', REPO)[1].strip()
    for m in M:
        if args and m['id'] not in args:
            continue
        path = os.path.join(REPO, m['file'])
        src = open(path).read()
        if src.count(m['old']) != 1:
            print(m['id'], 'DOES NOT APPLY (%d matches)' % src.count(m['old']))
            results[m['id']] = dict(status='does-not-apply', repo=head)
            continue
        open(path, 'w').write(src.replace(m['old'], m['new']))
        try:
            r = dict(note=m['note'], file=m['file'], expect=m['expect'], repo=head, checks={})
            rc, out = sh('cargo build --offline 2>&1 | tail -3', REPO)
            if 'error' in out:
                r['status'] = 'does-not-compile'; print(m['id'], 'does not compile', out[-300:]); results[m['id']] = r; continue
            if not no_suite:
                rc, out = sh('cargo test --offline --no-fail-fast 2>&1 | grep -E "^test result|FAILED|panicked" | head -20', REPO, timeout=900)
                r['suite'] = 'passes' if 'FAILED' not in out and 'panicked' not in out and 'test result: ok' in out else 'FAILS'
            for c in m['checks']:
                t0 = time.time()
                rc, out = sh('./check %s quick' % c, '/verif', timeout=900)
                v = [l for l in out.splitlines() if l.startswith('VIOLATION')]
                first = ''
                lines = out.splitlines()
                for i, l in enumerate(lines):
                    if l.startswith('VIOLATION') and i + 1 < len(lines):
                        first = lines[i + 1].strip()[:260]; break
                r['checks'][c] = dict(exit=rc, violations=len(v), first=first, wall=round(time.time() - t0, 1),
                                      machinery=[l[:200] for l in lines if l.startswith('MACHINERY')][:2])
            det = [c for c, x in r['checks'].items() if x['exit'] == 1 and x['violations'] > 0]
            r['status'] = 'detected by ' + ','.join(det) if det else 'NOT detected'
            print(m['id'], r.get('suite', '-'), r['status'], flush=True)
            results[m['id']] = r
        finally:
            sh('git checkout -- .', REPO)
            json.dump(results, open(resf, 'w'), indent=1)
    # report
    suite = json.load(open('/verif/mutants/suite.json')) if os.path.exists('/verif/mutants/suite.json') else {}
    for k, v in suite.items():
        if k in results:
            results[k]['suite'] = v
    with open('/verif/mutants/RESULTS.md', 'w') as f:
        f.write('# Hand-written changes vs. the quick checks\n\nGenerated by tools/mutants.py. "suite" = the repository\'s own tests with the change applied.\n\n')
        f.write('| id | change | suite | expected | result | first report |\n|---|---|---|---|---|---|\n')
        for m in M:
            r = results.get(m['id'])
            if not r:
                continue
            first = ''
            for c, x in r.get('checks', {}).items():
                if x['violations']:
                    first = c + ': ' + x['first'].replace('|', '/'); break
            f.write('| %s | %s (%s) | %s | %s | %s | %s |\n' % (m['id'], m['note'], m['file'], r.get('suite', '-'), m['expect'], r.get('status', ''), first))


if __name__ == '__main__':
    main()
