#!/bin/bash
# process_seed.sh <ID> <round letter> <worktree prefix> <demo prefix> "<cargo flags for demo>" <checks...>
id=$1; r=$2; wt=$3-$id; demo=${4}_${id,,}; feat="$5"; shift 5
echo "##### $id-$r"
/verif/tools/confirm_seed.sh $wt $id-$r $demo $feat 2>&1 | grep -vE "^\s+1 test result: ok" | cut -c1-150
/verif/tools/run_seed.sh $id-$r "$@"
