#!/bin/bash
# run_seed.sh <seed-id> <check ids...>: apply /verif/seeded/<id>/patch.diff to /repo, run quick checks, undo.
id="$1"; shift
cd /repo && git diff --quiet || { echo "/repo not clean"; exit 2; }
git apply /verif/seeded/$id/patch.diff || { echo "patch does not apply"; exit 2; }
for p in "$@"; do
  out=$(cd /verif && ./check $p quick 2>&1); code=$?
  echo "[$id] check $p exit=$code  $(echo "$out" | grep -c '^VIOLATION') VIOLATION line(s); $(echo "$out" | grep -E '^(NOTE|MACHINERY)' | head -3 | tr '\n' '|' | cut -c1-300)"
  echo "$out" | grep -A1 '^VIOLATION' | head -2 | cut -c1-330
done
git -C /repo checkout -- .
