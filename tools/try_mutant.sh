#!/bin/bash
# try_mutant.sh <mutant-id> <check> [scenario prefix] : apply one hand-written mutant, run one check (optionally one scenario family), undo
python3 - "$1" <<'PY'
import sys, importlib.util
spec=importlib.util.spec_from_file_location('m','/verif/tools/mutants.py'); m=importlib.util.module_from_spec(spec); spec.loader.exec_module(m)
x=[y for y in m.M if y['id']==sys.argv[1]][0]
p='/repo/'+x['file']; s=open(p).read(); assert s.count(x['old'])==1; open(p,'w').write(s.replace(x['old'],x['new']))
PY
cd /verif; VERIF_ONLY="${3:-}" ./check $2 ${4:-quick} 2>&1 | grep -E "^VIOLATION|^C[0-9]+ |MACHINERY" -A1 | head -6 | cut -c1-300
git -C /repo checkout -- .
