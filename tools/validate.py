#!/usr/bin/env python3
# validates MANIFEST.json and every evidence file against the schemas (python3-vt has jsonschema)
import json,sys,glob,jsonschema
jsonschema.validate(json.load(open('/verif/MANIFEST.json')), json.load(open('/root/.vp/MANIFEST.schema.json'))); print('manifest ok')
es=json.load(open('/root/.vp/EVIDENCE.schema.json'))
for f in sorted(glob.glob('/verif/evidence/*.json')):
    jsonschema.validate(json.load(open(f)), es); print(f,'ok')
