//! C07: destroying long or deep structures on threads with small stacks. Every case runs in a
//! child process so that a stack overflow is an observation, not a crash of the checker.

use std::cell::RefCell;
use std::sync::atomic::{AtomicUsize, Ordering};

use circ::{AtomicRc, Rc, RcObject};

static DROPS: AtomicUsize = AtomicUsize::new(0);

struct LNode {
    next: [AtomicRc<LNode>; 2],
}

unsafe impl RcObject for LNode {
    fn pop_edges(&mut self, out: &mut Vec<Rc<Self>>) {
        out.push(self.next[0].take());
        out.push(self.next[1].take());
    }
}

impl Drop for LNode {
    fn drop(&mut self) {
        DROPS.fetch_add(1, Ordering::Relaxed);
    }
}

fn leaf() -> Rc<LNode> {
    Rc::new(LNode {
        next: [AtomicRc::null(), AtomicRc::null()],
    })
}

fn node(a: Rc<LNode>, b: Rc<LNode>) -> Rc<LNode> {
    Rc::new(LNode {
        next: [AtomicRc::from(a), AtomicRc::from(b)],
    })
}

pub const SHAPES: [&str; 5] = ["chain", "left-comb", "right-comb", "balanced-tree", "spine-with-leaves"];

/// Builds a structure of exactly `n` nodes iteratively (no recursion in the builder).
fn build(shape: usize, n: usize) -> Rc<LNode> {
    match shape {
        0 => {
            let mut head = leaf();
            for _ in 1..n {
                head = node(head, Rc::null());
            }
            head
        }
        1 | 2 => {
            // a spine with one leaf per spine node, spine on the left (1) or on the right (2)
            let mut head = leaf();
            let mut made = 1;
            while made < n {
                if made + 2 <= n {
                    let l = leaf();
                    head = if shape == 1 { node(head, l) } else { node(l, head) };
                    made += 2;
                } else {
                    head = if shape == 1 { node(head, Rc::null()) } else { node(Rc::null(), head) };
                    made += 1;
                }
            }
            head
        }
        3 => {
            // balanced: combine pairs bottom-up
            let mut level: Vec<Rc<LNode>> = Vec::new();
            // choose number of leaves so that the total is n: build a heap-shaped tree
            let mut nodes: Vec<Option<Rc<LNode>>> = (0..n).map(|_| None).collect();
            for i in (0..n).rev() {
                let l = if 2 * i + 1 < n { nodes[2 * i + 1].take().unwrap() } else { Rc::null() };
                let r = if 2 * i + 2 < n { nodes[2 * i + 2].take().unwrap() } else { Rc::null() };
                nodes[i] = Some(node(l, r));
            }
            level.push(nodes[0].take().unwrap());
            level.pop().unwrap()
        }
        _ => {
            // a spine whose every node also carries a short chain of 3 leaves-in-a-row
            let mut head = leaf();
            let mut made = 1;
            while made < n {
                let extra = (n - made - 1).min(3);
                let mut side = Rc::null();
                for _ in 0..extra {
                    side = node(side, Rc::null());
                }
                head = node(head, side);
                made += 1 + extra;
            }
            head
        }
    }
}

fn rounds(k: usize) {
    for _ in 0..k {
        let g = circ::cs();
        g.flush();
    }
}

fn destroy(head: Rc<LNode>, n: usize) -> usize {
    drop(head);
    let max_rounds = 64 + 16 * (n / 1024 + 1);
    let mut used = 0;
    while DROPS.load(Ordering::Relaxed) < n && used < max_rounds {
        rounds(1);
        used += 1;
    }
    used
}

struct AtExit(RefCell<Option<(Rc<LNode>, usize)>>);
impl Drop for AtExit {
    fn drop(&mut self) {
        if let Some((head, n)) = self.0.borrow_mut().take() {
            destroy(head, n);
        }
    }
}
thread_local! {
    static AT_EXIT: AtExit = const { AtExit(RefCell::new(None)) };
}

/// `ctx` 0: plain call on a thread with the given stack; 1: inside a TLS destructor at thread exit.
/// `stack_kib` 0: the main thread.
pub fn run_case(shape: usize, n: usize, stack_kib: usize, ctx: usize) -> i32 {
    // build on a roomy thread, age the links, hand the head over
    let head = std::thread::Builder::new()
        .stack_size(64 << 20)
        .spawn(move || {
            let h = build(shape, n);
            rounds(6);
            h
        })
        .unwrap()
        .join()
        .unwrap();
    let work = move || {
        if ctx == 0 {
            destroy(head, n);
        } else {
            // touch circ first so that its thread-local handle is destroyed before ours runs
            AT_EXIT.with(|a| *a.0.borrow_mut() = Some((head, n)));
            rounds(1);
        }
    };
    if stack_kib == 0 {
        if ctx == 1 {
            // TLS destructors of the main thread do not run at process exit: use a big thread
            std::thread::Builder::new().stack_size(8 << 20).spawn(work).unwrap().join().unwrap();
        } else {
            work();
        }
    } else {
        let r = std::thread::Builder::new()
            .stack_size(stack_kib << 10)
            .spawn(work)
            .unwrap()
            .join();
        if r.is_err() {
            println!("PANIC");
            return 4;
        }
    }
    // whatever the exiting thread left behind is finished by this one
    let mut used = 0;
    let max_rounds = 64 + 16 * (n / 1024 + 1);
    while DROPS.load(Ordering::Relaxed) < n && used < max_rounds {
        rounds(1);
        used += 1;
    }
    let d = DROPS.load(Ordering::Relaxed);
    println!("DESTRUCTED {} of {}", d, n);
    if d == n {
        0
    } else {
        3
    }
}
