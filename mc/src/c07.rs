//! C07: destroying long or deep structures on threads with small stacks. Every case runs in a
//! child process so that a stack overflow is an observation, not a crash of the checker.

use std::cell::RefCell;
use std::sync::atomic::{AtomicUsize, Ordering};

use circ::{AtomicRc, Rc, RcObject};

static DROPS: AtomicUsize = AtomicUsize::new(0);

struct LNode {
    next: [AtomicRc<LNode>; 2],
}

unsafe impl RcObject for LNode {
    fn pop_edges(&mut self, out: &mut Vec<Rc<Self>>) {
        out.push(self.next[0].take());
        out.push(self.next[1].take());
    }
}

impl Drop for LNode {
    fn drop(&mut self) {
        DROPS.fetch_add(1, Ordering::Relaxed);
    }
}

fn leaf() -> Rc<LNode> {
    Rc::new(LNode {
        next: [AtomicRc::null(), AtomicRc::null()],
    })
}

fn node(a: Rc<LNode>, b: Rc<LNode>) -> Rc<LNode> {
    Rc::new(LNode {
        next: [AtomicRc::from(a), AtomicRc::from(b)],
    })
}

pub const SHAPES: [&str; 8] = [
    "chain",
    "left-comb",
    "right-comb",
    "balanced-tree",
    "spine-with-leaves",
    "fan-out-destructor-released",
    "fan-out-destructor-released-tight",
    "pool-of-independent-nodes",
];

/// A node whose edges are released by its destructor (`pop_edges` takes none of them, which the
/// trait allows): every released edge is one `decrement_strong` inside a running destruction.
struct FNode {
    kids: Vec<AtomicRc<FNode>>,
}

unsafe impl RcObject for FNode {
    fn pop_edges(&mut self, _out: &mut Vec<Rc<Self>>) {}
}

impl Drop for FNode {
    fn drop(&mut self) {
        DROPS.fetch_add(1, Ordering::Relaxed);
    }
}

/// root -> (n-1)/2 middle nodes -> one leaf each (+ one extra leaf under the root when n is even)
fn build_fan(n: usize) -> Rc<FNode> {
    let w = (n - 1) / 2;
    let mut kids = Vec::with_capacity(w + 1);
    for _ in 0..w {
        let leaf = Rc::new(FNode { kids: Vec::new() });
        kids.push(AtomicRc::from(Rc::new(FNode { kids: vec![AtomicRc::from(leaf)] })));
    }
    if 1 + 2 * w < n {
        kids.push(AtomicRc::from(Rc::new(FNode { kids: Vec::new() })));
    }
    Rc::new(FNode { kids })
}

enum Head {
    L(Rc<LNode>),
    F(Rc<FNode>),
    /// n unrelated nodes kept in a vector (a cache, a pool): n releases, nothing to cascade
    P(Vec<Rc<FNode>>),
}
// handed from the building thread to the destroying one
unsafe impl Send for Head {}

/// Builds a structure of exactly `n` nodes iteratively (no recursion in the builder).
fn build(shape: usize, n: usize) -> Rc<LNode> {
    match shape {
        0 => {
            let mut head = leaf();
            for _ in 1..n {
                head = node(head, Rc::null());
            }
            head
        }
        1 | 2 => {
            // a spine with one leaf per spine node, spine on the left (1) or on the right (2)
            let mut head = leaf();
            let mut made = 1;
            while made < n {
                if made + 2 <= n {
                    let l = leaf();
                    head = if shape == 1 { node(head, l) } else { node(l, head) };
                    made += 2;
                } else {
                    head = if shape == 1 { node(head, Rc::null()) } else { node(Rc::null(), head) };
                    made += 1;
                }
            }
            head
        }
        3 => {
            // balanced: combine pairs bottom-up
            let mut level: Vec<Rc<LNode>> = Vec::new();
            // choose number of leaves so that the total is n: build a heap-shaped tree
            let mut nodes: Vec<Option<Rc<LNode>>> = (0..n).map(|_| None).collect();
            for i in (0..n).rev() {
                let l = if 2 * i + 1 < n { nodes[2 * i + 1].take().unwrap() } else { Rc::null() };
                let r = if 2 * i + 2 < n { nodes[2 * i + 2].take().unwrap() } else { Rc::null() };
                nodes[i] = Some(node(l, r));
            }
            level.push(nodes[0].take().unwrap());
            level.pop().unwrap()
        }
        _ => {
            // a spine whose every node also carries a short chain of 3 leaves-in-a-row
            let mut head = leaf();
            let mut made = 1;
            while made < n {
                let extra = (n - made - 1).min(3);
                let mut side = Rc::null();
                for _ in 0..extra {
                    side = node(side, Rc::null());
                }
                head = node(head, side);
                made += 1 + extra;
            }
            head
        }
    }
}

fn rounds(k: usize) {
    for _ in 0..k {
        let g = circ::cs();
        g.flush();
    }
}

/// Rounds until all `n` nodes are destructed. The cascade shapes get a fixed budget. The fan-out
/// shapes, whose every node is a deferred closure of its own (up to one bag per node, plus one
/// retired participant per release when the thread's handle is already gone, all of which queue up
/// in front of the next level's closures), run for as long as the garbage queue is not empty.
fn finish(n: usize, fan: bool) -> usize {
    let max_rounds = if fan { 4 * n + 64 } else { 64 + 16 * (n / 1024 + 1) };
    let mut used = 0;
    let mut empty = 0;
    while DROPS.load(Ordering::Relaxed) < n && used < max_rounds && empty < 8 {
        rounds(1);
        used += 1;
        if fan {
            empty = if cv::queue_front_epoch().is_none() { empty + 1 } else { 0 };
        }
        if std::env::var("C07_DEBUG").is_ok() && used % 5000 == 0 {
            let c: Vec<usize> = COUNTS.iter().map(|x| x.load(Ordering::Relaxed)).collect();
            eprintln!("round {} drops {} epoch {} front bag sealed in {:?}; sealed {} expired {} td-deferred {} td-run {}", used, DROPS.load(Ordering::Relaxed), cv::global_epoch(), cv::queue_front_epoch(), c[0], c[1], c[2], c[3]);
        }
    }
    used
}

fn destroy(head: Head, n: usize) -> usize {
    let fan = matches!(head, Head::F(_) | Head::P(_));
    drop(head);
    finish(n, fan)
}

struct AtExit(RefCell<Option<(Head, usize)>>);
impl Drop for AtExit {
    fn drop(&mut self) {
        if let Some((head, n)) = self.0.borrow_mut().take() {
            destroy(head, n);
        }
    }
}
thread_local! {
    static AT_EXIT: AtExit = const { AtExit(RefCell::new(None)) };
}

// ---- contended variant: weak-pointer traffic collides with the cascade on chosen nodes ----------

use circ::verif as cv;
use std::cell::Cell;
use std::collections::HashMap;

struct Targets(std::cell::UnsafeCell<HashMap<usize, (circ::Weak<LNode>, usize)>>);
unsafe impl Sync for Targets {}
static TARGETS: std::sync::OnceLock<Targets> = std::sync::OnceLock::new();
static COLLISIONS: AtomicUsize = AtomicUsize::new(0);
thread_local! {
    static IN_HOOK: Cell<bool> = const { Cell::new(false) };
}

/// Just before the fourth access of the count word of a target node - which, for a node reached by
/// the cascade, is the compare-exchange that marks it destructed (after the parent's load and
/// decrement and the node's own load) - "another thread" clones a Weak to that node (done inline:
/// the effect on the count word is the same), so that this compare-exchange fails exactly once.
/// Colliding at every access would be an unfair adversary: the retry would never get through.
fn collide(class: cv::Class, addr: usize) {
    if class != cv::Class::State || IN_HOOK.with(|f| f.get()) {
        return;
    }
    let Some(t) = TARGETS.get() else { return };
    let map = unsafe { &mut *t.0.get() };
    if let Some((w, seen)) = map.get_mut(&addr) {
        *seen += 1;
        if *seen != 4 {
            return;
        }
        IN_HOOK.with(|f| f.set(true));
        // keep the clone: dropping it at once would restore the very same count word
        let c = w.clone();
        std::mem::forget(c);
        COLLISIONS.fetch_add(1, Ordering::Relaxed);
        IN_HOOK.with(|f| f.set(false));
    }
}
fn no_event(_: &cv::Event) {}
fn no_quarantine(_: usize) -> bool {
    false
}
static COLLIDER: cv::Hooks = cv::Hooks {
    point: collide,
    event: no_event,
    quarantine: no_quarantine,
};

// ---- optional measurement (env C07_MEASURE=1): stack window seen at the library's yield points

static SP_MIN: AtomicUsize = AtomicUsize::new(usize::MAX);
static SP_MAX: AtomicUsize = AtomicUsize::new(0);
fn measure(_: cv::Class, _: usize) {
    let probe = 0u8;
    let sp = &probe as *const u8 as usize;
    SP_MIN.fetch_min(sp, Ordering::Relaxed);
    SP_MAX.fetch_max(sp, Ordering::Relaxed);
}
static HIST: std::sync::Mutex<std::collections::BTreeMap<(usize, usize), usize>> = std::sync::Mutex::new(std::collections::BTreeMap::new());
static COUNTS: [AtomicUsize; 8] = [const { AtomicUsize::new(0) }; 8];
fn count_event(e: &cv::Event) {
    let i = match e {
        cv::Event::BagSealed { len, epoch } => {
            COUNTS[6].fetch_add(*len, Ordering::Relaxed);
            if std::env::var("C07_DEBUG").is_ok() {
                let mut h = HIST.lock().unwrap();
                *h.entry(((*epoch).min(20), (*len).min(65))).or_insert(0usize) += 1;
            }
            0
        }
        cv::Event::BagExpired { .. } => 1,
        cv::Event::RcDefer { kind: 0, .. } => 2,
        cv::Event::RcRun { kind: 0, .. } => 3,
        cv::Event::Registered { .. } => 4,
        cv::Event::Finalized { .. } => 5,
        _ => return,
    };
    COUNTS[i].fetch_add(1, Ordering::Relaxed);
}
static MEASURE: cv::Hooks = cv::Hooks {
    point: measure,
    event: count_event,
    quarantine: no_quarantine,
};

/// A chain of n nodes with a Weak to every `every`-th node.
fn build_chain_with_weaks(n: usize, every: usize) -> Rc<LNode> {
    let mut map = HashMap::new();
    let mut head = leaf();
    for i in 1..n {
        head = node(head, Rc::null());
        if i % every == 0 {
            let w = head.downgrade();
            map.insert(cv::word_addr::<LNode>(cv::rc_word(&head)), (w, 0));
        }
    }
    let _ = TARGETS.set(Targets(std::cell::UnsafeCell::new(map)));
    head
}

/// `ctx` 0: plain call on a thread with the given stack; 1: inside a TLS destructor at thread exit;
/// 2: plain call while weak-pointer traffic collides with the cascade on every 500th node (chain only).
/// `stack_kib` 0: the main thread.
pub fn run_case(shape: usize, n: usize, stack_kib: usize, ctx: usize) -> i32 {
    if ctx == 2 {
        let head = std::thread::Builder::new()
            .stack_size(64 << 20)
            .spawn(move || {
                let h = build_chain_with_weaks(n, 500);
                rounds(6);
                h
            })
            .unwrap()
            .join()
            .unwrap();
        cv::install(&COLLIDER);
        let work = move || {
            destroy(Head::L(head), n);
        };
        if stack_kib == 0 {
            work();
        } else {
            let r = std::thread::Builder::new().stack_size(stack_kib << 10).spawn(work).unwrap().join();
            if r.is_err() {
                println!("PANIC");
                return 4;
            }
        }
        let d = DROPS.load(Ordering::Relaxed);
        println!("DESTRUCTED {} of {} ({} collisions)", d, n, COLLISIONS.load(Ordering::Relaxed));
        // the collisions must really have happened, or the case says nothing
        if COLLISIONS.load(Ordering::Relaxed) < (n - 1) / 500 {
            return 5;
        }
        // leave the Weaks alone: the process ends here
        return if d == n { 0 } else { 3 };
    }
    if shape == 6 {
        // a flush on every second decrement and four closures per bag: the same structure puts
        // 16 times as many bags in flight
        cv::set_manual_interval(2);
        cv::set_bag_capacity(4);
    }
    // build on a roomy thread, age the links, hand the head over
    let head = std::thread::Builder::new()
        .stack_size(64 << 20)
        .spawn(move || {
            let h = if shape == 7 {
                Head::P((0..n).map(|_| Rc::new(FNode { kids: Vec::new() })).collect())
            } else if shape >= 5 {
                Head::F(build_fan(n))
            } else {
                Head::L(build(shape, n))
            };
            rounds(6);
            h
        })
        .unwrap()
        .join()
        .unwrap();
    let measuring = std::env::var("C07_MEASURE").is_ok();
    let work = move || {
        if measuring {
            cv::install(&MEASURE);
        }
        if ctx == 0 {
            destroy(head, n);
        } else {
            // touch circ first so that its thread-local handle is destroyed before ours runs
            AT_EXIT.with(|a| *a.0.borrow_mut() = Some((head, n)));
            rounds(1);
        }
    };
    if stack_kib == 0 {
        if ctx == 1 {
            // TLS destructors of the main thread do not run at process exit: use a big thread
            std::thread::Builder::new().stack_size(8 << 20).spawn(work).unwrap().join().unwrap();
        } else {
            work();
        }
    } else {
        let r = std::thread::Builder::new()
            .stack_size(stack_kib << 10)
            .spawn(work)
            .unwrap()
            .join();
        if r.is_err() {
            println!("PANIC");
            return 4;
        }
    }
    // whatever the exiting thread left behind is finished by this one
    finish(n, shape >= 5);
    let d = DROPS.load(Ordering::Relaxed);
    println!("DESTRUCTED {} of {}", d, n);
    if measuring {
        println!("STACK_WINDOW {} bytes", SP_MAX.load(Ordering::Relaxed).saturating_sub(SP_MIN.load(Ordering::Relaxed)));
        let c: Vec<usize> = COUNTS.iter().map(|x| x.load(Ordering::Relaxed)).collect();
        if std::env::var("C07_DEBUG").is_ok() {
            println!("bags by (epoch capped at 20, closures): {:?}", HIST.lock().unwrap());
        }
        println!("bags sealed {} (closures {}) expired {}; try_destruct deferred {} run {}; participants registered {} finalized {}", c[0], c[6], c[1], c[2], c[3], c[4], c[5]);
    }
    if d == n {
        0
    } else {
        3
    }
}
