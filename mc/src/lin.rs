//! Brute-force linearizability checking of small call/return histories against a sequential
//! specification given as a step function.

use crate::monitor::OpRec;

/// `step(state, op) -> Some(new state)` if `op` with its recorded result is legal in `state`.
pub fn linearizable<S: Clone>(
    ops: &[OpRec],
    init: S,
    step: &dyn Fn(&S, &OpRec) -> Option<S>,
) -> Option<Vec<usize>> {
    let n = ops.len();
    let mut order = Vec::with_capacity(n);
    let mut used = vec![false; n];
    if search(ops, &mut used, &mut order, init, step) {
        Some(order)
    } else {
        None
    }
}

fn search<S: Clone>(
    ops: &[OpRec],
    used: &mut Vec<bool>,
    order: &mut Vec<usize>,
    state: S,
    step: &dyn Fn(&S, &OpRec) -> Option<S>,
) -> bool {
    let n = ops.len();
    if order.len() == n {
        return true;
    }
    // an operation may go next only if no unused operation returned before it was invoked
    let mut min_resp = u64::MAX;
    for i in 0..n {
        if !used[i] {
            min_resp = min_resp.min(ops[i].resp);
        }
    }
    for i in 0..n {
        if used[i] || ops[i].inv > min_resp {
            continue;
        }
        if let Some(s2) = step(&state, &ops[i]) {
            used[i] = true;
            order.push(i);
            if search(ops, used, order, s2, step) {
                return true;
            }
            order.pop();
            used[i] = false;
        }
    }
    false
}

/// Sequential specification of an AtomicRc / AtomicWeak as a cell holding one abstract value
/// (object * 16 + tag). Operation kinds as recorded by the driver (`w` prefix for AtomicWeak).
pub fn cell_step(state: &i64, op: &OpRec) -> Option<i64> {
    let s = *state;
    let k = op.kind.trim_start_matches('w');
    match k {
        "load" => (op.res[0] == s).then_some(s),
        "store" => Some(op.args[1]),
        "swap" => (op.res[0] == s).then_some(op.args[1]),
        "cas" | "cas_weak" => {
            let (exp, des) = (op.args[1], op.args[2]);
            if op.res[0] == 1 {
                (s == exp && op.res[1] == s).then_some(des)
            } else {
                let legal_failure = s != exp || k == "cas_weak";
                (legal_failure && op.res[1] == s && op.res[2] == des).then_some(s)
            }
        }
        "cas_tag" => {
            let (exp, t) = (op.args[1], op.args[2] % 8);
            if op.res[0] == 1 {
                (s == exp && op.res[1] == s).then_some((s / 16) * 16 + t)
            } else {
                (s != exp && op.res[1] == s && op.res[2] == (exp / 16) * 16 + t).then_some(s)
            }
        }
        _ => Some(s),
    }
}

pub fn describe(ops: &[OpRec]) -> String {
    ops.iter()
        .map(|o| {
            format!(
                "t{} {}({},{},{})->{:?} [{}..{}]",
                o.tid, o.kind, o.args[1], o.args[2], o.args[3], &o.res[..3], o.inv, o.resp
            )
        })
        .collect::<Vec<_>>()
        .join("; ")
}
