//! Per-property check plans, verdicts and evidence files.

use serde_json::{json, Value};

use crate::exec::Params;
use crate::pure;
use crate::runner::{self, goal, Found, Goal, Plan, Unit};
use crate::scen::seq;
use crate::sched;

pub const E0_ALL: [i64; 17] = [0, 1, 2, 3, 4, 5, 6, 7, 8, 9, 10, 11, 12, 13, 14, 15, 65534];
pub const E0_FEW: [i64; 4] = [0, 6, 11, 14];

fn e(e0: i64) -> Params {
    Params::default().set("e0", e0)
}

struct B {
    units: Vec<Unit>,
    goals: Vec<Goal>,
}

impl B {
    fn new() -> B {
        B {
            units: vec![],
            goals: vec![],
        }
    }
    /// scenario x e0 set x extra parameter combinations
    fn add(&mut self, scen: &str, e0s: &[i64], extra: &[&[(&str, i64)]], bound: usize) {
        for &e0 in e0s {
            if extra.is_empty() {
                self.units.push(Unit::new(scen, e(e0), bound));
            }
            for kv in extra {
                let mut p = e(e0);
                for (k, v) in kv.iter() {
                    p = p.set(k, *v);
                }
                self.units.push(Unit::new(scen, p, bound));
            }
        }
    }
    /// like `add`, each unit split into `k` slices of the schedule tree
    fn add_sliced(&mut self, scen: &str, e0s: &[i64], extra: &[&[(&str, i64)]], bound: usize, k: usize) {
        let from = self.units.len();
        self.add(scen, e0s, extra, bound);
        let base: Vec<Unit> = self.units.drain(from..).collect();
        for u in base {
            for j in 0..k {
                self.units.push(u.clone().slice(j, k));
            }
        }
    }
    /// a case grid: `total` cases of one scenario, cut into chunks that workers take in parallel
    fn add_cases(&mut self, scen: &str, p: Params, total: i64, chunk: i64) {
        let mut from = 0;
        while from < total {
            let to = (from + chunk).min(total);
            self.units.push(Unit::new(scen, p.clone(), 0).cases(from..to));
            from = to;
        }
    }
    fn goal(&mut self, scen: &str, key: &str) {
        self.goals.push(goal(scen, key));
    }
}

const RC_EBR: i64 = sched::ALL as i64;

pub fn plan(prop: &str, tier: &str) -> Option<Plan> {
    let quick = tier == "quick";
    let mut b = B::new();
    let all: &[i64] = &E0_ALL;
    let few: &[i64] = &E0_FEW;
    let rule;
    let mut bounds = json!({});
    match prop {
        "C01" => {
            let bq = if quick { 3 } else { 5 };
            b.add("rc/upgrade-vs-attempt", all, &[&[("pre", 2)], &[("pre", 3)]], bq);
            b.add("rc/two-upgraders", all, &[&[("pre", 2)]], if quick { 2 } else { 4 });
            b.add("rc/counted-vs-last-drop", all, &[&[("age", 0)], &[("age", 4)]], bq);
            b.add("rc/counted-on-cascade-child", all, &[&[("age", 4)], &[("age", 1)]], bq);
            b.add("rc/transfer", all, &[&[("third", 0)]], bq);
            b.add("rc/transfer", if quick { few } else { all }, &[&[("third", 1)]], if quick { 2 } else { 3 });
            b.add("rc/dag-shared-child", all, &[&[("age", 4)], &[("age", 0)]], bq);
            b.add("rc/weak-holder", all, &[], if quick { 2 } else { 4 });
            b.add("rc/upgrade-vs-cascade-child", all, &[&[("age", 4), ("pre", 2)], &[("age", 4), ("pre", 3)]], bq);
            b.add("rc/bulk-shares", all, &[&[("kind", 0)], &[("kind", 1)]], if quick { 2 } else { 4 });
            // every bulk-constructor configuration: shares of new_many / new_many_iter and the
            // receiver of weak_many are strong owners too
            for &e0 in (if quick { &[0i64][..] } else { few }).iter() {
                b.add_cases("seq/bulk", e(e0).set("noclaim", 1), seq::bulk_specs().len() as i64, 40);
            }
            b.add_cases("seq/conv", e(0).set("noclaim", 1), seq::conv_cases(), 40);
            // the Rc that counted() makes from an upgraded WeakSnapshot
            b.add("rc/ws-upgrade-vs-attempt", few, &[&[("pre", 2)], &[("pre", 3)]], if quick { 3 } else { 4 });
            if !quick {
                // the epoch collector's own steps become scheduling points too
                for s in ["rc/upgrade-vs-attempt", "rc/counted-vs-last-drop", "rc/upgrade-vs-cascade-child"] {
                    b.add(s, few, &[&[("classes", RC_EBR)]], 2);
                }
            }
            // generated family: every pair of 2-operation programs (12 letters) + a rounds thread
            if quick {
                b.add_cases("gen/rc", e(0).set("k1", 1).set("k2", 1).set("init", 2).set("pre", 2), crate::scen::gen::rc_cases(1, 1), 12);
            } else {
                // (2+2 letters x 4 states did not finish in 900 s: 2+1 and 1+2 do)
                for (init, pre) in [(1, 2), (2, 2), (2, 3), (1, 0)] {
                    for (k1, k2) in [(2, 1), (1, 2)] {
                        b.add_cases("gen/rc", e(0).set("k1", k1).set("k2", k2).set("init", init).set("pre", pre), crate::scen::gen::rc_cases(k1 as usize, k2 as usize), 40);
                    }
                }
            }
            for u in b.units.iter_mut().filter(|u| u.scenario == "gen/rc") {
                u.bound = 2;
            }
            b.goal("rc/upgrade-vs-attempt", "upgrade-some");
            b.goal("rc/upgrade-vs-attempt", "try-destruct-ran");
            b.goal("rc/counted-on-cascade-child", "cascade-child-destructed");
            b.goal("rc/upgrade-vs-cascade-child", "upgrade-some");
            b.goal("rc/upgrade-vs-cascade-child", "upgrade-none");
            rule = "every schedule with at most B preemptions of each listed 2-3 thread program, for every initial epoch listed; an execution is non-trivial if it deviates from the default schedule at least once, distinct by event-trace hash";
            bounds = json!({"threads": "2-3", "preemptions": bq, "classes": sched::class_names(sched::RC), "e0": all});
        }
        "C02" => {
            let bq = if quick { 3 } else { 5 };
            b.add("rc/reader-vs-root-reclaim", all, &[&[("age", 0)], &[("age", 4)]], bq);
            b.add("rc/reader-second-path", all, &[&[("age", 4), ("pre", 2)]], if quick { 2 } else { 3 });
            b.add("rc/reader-second-path", if quick { few } else { all }, &[&[("age", 0), ("pre", 2)], &[("age", 4), ("pre", 3)]], if quick { 2 } else { 3 });
            b.add_sliced("rc/stalled-dropper", if quick { &[0i64][..] } else { &[0i64, 1, 2, 5, 11, 13, 14, 15, 65535][..] }, &[&[("k", 0)]], 2, if quick { 8 } else { 4 });
            // six threads: the dropper is pinned, its stamp one epoch behind, one more advance follows
            if !quick {
                b.add_sliced("rc/stalled-dropper", few, &[&[("k", 0), ("split", 1)]], 2, 16);
            }
            if !quick {
                b.add_sliced("rc/stalled-dropper", few, &[&[("k", 3)]], 2, 4);
            }
            b.add("rc/failed-cas-current", all, &[], bq);
            b.add_sliced("rc/reader-flushes", if quick { &[0i64][..] } else { few }, &[&[("mode", 0)]], 3, 16);
            b.add_sliced("rc/reader-flushes", &[0i64], &[&[("mode", 1)]], if quick { 2 } else { 3 }, 16);
            b.add("rc/snapshot-then-drop", all, &[&[("age", 4), ("pre", 2)], &[("age", 0), ("pre", 2)]], bq);
            b.add("rc/ws-upgrade-vs-attempt", all, &[&[("pre", 2)], &[("pre", 3)]], bq);
            // the last decrement 15..17 and 32 epochs before the upgrade (stamp aliasing)
            b.add("rc/ws-upgrade-vs-attempt", few, &[&[("pre", 2), ("dist", 15)], &[("pre", 2), ("dist", 16)], &[("pre", 2), ("dist", 17)], &[("pre", 2), ("dist", 32)], &[("pre", 3), ("dist", 16)]], bq);
            b.add("rc/ws-upgrade-vs-cascade-child", all, &[&[("age", 4), ("pre", 2)]], bq);
            b.add("rc/reactivate", all, &[], if quick { 2 } else { 4 });
            b.add("rc/link-into-unlinked", if quick { few } else { all }, &[&[("pre", 2)], &[("pre", 0)]], if quick { 2 } else { 3 });
            if !quick {
                for s in ["rc/reader-vs-root-reclaim", "rc/reader-second-path", "rc/ws-upgrade-vs-cascade-child"] {
                    b.add(s, few, &[&[("classes", RC_EBR)]], 2);
                }
            }
            if quick {
                b.add_cases("gen/rc", e(0).set("k1", 1).set("k2", 1).set("init", 3).set("pre", 2), crate::scen::gen::rc_cases(1, 1), 12);
            } else {
                for (init, pre, k1, k2) in [(3, 2, 1, 2), (3, 2, 2, 1), (3, 3, 1, 2), (0, 2, 1, 2), (0, 2, 2, 1)] {
                    b.add_cases("gen/rc", e(0).set("k1", k1).set("k2", k2).set("init", init).set("pre", pre), crate::scen::gen::rc_cases(k1 as usize, k2 as usize), 40);
                }
            }
            for u in b.units.iter_mut().filter(|u| u.scenario == "gen/rc") {
                u.bound = 2;
            }
            {
                // a reader's whole critical section against a mutator, both generated (thorough
                // tier only since the hand-over scenario below came into the quick tier)
                let from = b.units.len();
                for init in (if quick { 2..2 } else { 0..2 }) {
                    b.add_cases("gen/reader", e(0).set("k1", 2).set("k2", 1).set("init", init).set("pre", 2), crate::scen::gen::reader_cases(2, 1), 16);
                }
                b.units[from..].iter_mut().for_each(|u| u.bound = if quick { 1 } else { 2 });
                if !quick {
                    let from = b.units.len();
                    for init in 0..2 {
                        b.add_cases("gen/reader", e(0).set("k1", 2).set("k2", 2).set("init", init).set("pre", 2), crate::scen::gen::reader_cases(2, 2), 60);
                    }
                    b.units[from..].iter_mut().for_each(|u| u.bound = 1);
                }
            }
            // a cascade that outlives three epoch advances (scheduling at the driver's points only)
            b.add("rc/long-cascade", &[20, 37, 53], &[], 2);
            // a destructor that reads under its own guard while it flushes (finding #13): thread 0
            // is interrupted at each of its four uses of the Snapshot
            b.add("rc/destructor-reader", &[0, 37], &[], 4);
            b.goal("rc/destructor-reader", "destructor-read-under-own-guard");
            // the link's own stamp is the only protection (three preemptions, four threads)
            b.add_sliced("rc/handover-into-reclaimed", if quick { &[0i64][..] } else { all }, &[], 3, 16);
            b.goal("rc/stalled-dropper", "cascade-child-destructed");
            b.goal("rc/reader-second-path", "try-destruct-ran");
            b.goal("rc/ws-upgrade-vs-cascade-child", "upgrade-some");
            b.goal("rc/ws-upgrade-vs-attempt", "upgrade-some");
            rule = "every schedule with at most B preemptions of each listed reader/unlinker/reclaimer program (2-5 threads), for every initial epoch listed; non-trivial = deviates from the default schedule, distinct by event-trace hash";
            bounds = json!({"threads": "2-5", "preemptions": bq, "classes": sched::class_names(sched::RC), "e0": all});
        }
        "C03" => {
            let bq = if quick { 3 } else { 5 };
            b.add("rc/weak-holder", all, &[], if quick { 2 } else { 4 });
            b.add("rc/weak-through-zero", all, &[&[("destructed", 1)], &[("destructed", 0)], &[("destructed", 2), ("pre", 2)], &[("destructed", 2), ("pre", 3)], &[("destructed", 1), ("dropin", 1)]], bq);
            b.add("rc/last-weak-vs-destruct", all, &[&[("pre", 0)], &[("pre", 2)], &[("pre", 3)]], bq);
            b.add("rc/weak-many-shares", all, &[], if quick { 2 } else { 4 });
            b.add("rc/first-downgrade", few, &[&[("many", 0)], &[("many", 1)]], if quick { 2 } else { 3 });
            {
                let from = b.units.len();
                if quick {
                    for init in 0..5 {
                        b.add_cases("gen/weak", e(0).set("k1", 1).set("k2", 1).set("init", init).set("pre", 2), crate::scen::gen::weak_cases(1, 1), 12);
                    }
                } else {
                    for (init, pre) in [(0, 2), (1, 2), (2, 2), (2, 3), (3, 2), (4, 2), (4, 3)] {
                        for (k1, k2) in [(2, 1), (1, 2)] {
                            b.add_cases("gen/weak", e(0).set("k1", k1).set("k2", k2).set("init", init).set("pre", pre), crate::scen::gen::weak_cases(k1 as usize, k2 as usize), 40);
                        }
                    }
                }
                b.units[from..].iter_mut().for_each(|u| u.bound = 2);
            }
            // the sequential families written for other properties create and release weak
            // owners too: run them with the native attribution
            b.add_cases("seq/conv", e(0).set("noclaim", 1), seq::conv_cases(), 40);
            b.add_cases("seq/bulk", e(0).set("noclaim", 1), seq::bulk_specs().len() as i64, 40);
            b.add_cases("seq/wcell", e(0).set("noclaim", 1), seq::seq_cases(seq::wcell_alphabet().len(), if quick { 3 } else { 4 }), 1500);
            b.goal("rc/weak-holder", "upgrade-none");
            b.goal("rc/weak-holder", "upgrade-some");
            rule = "every schedule with at most B preemptions of each listed weak/strong program; non-trivial = deviates from the default schedule, distinct by event-trace hash";
            bounds = json!({"threads": 2, "preemptions": bq, "classes": sched::class_names(sched::RC), "e0": all});
        }
        "C05" => {
            let bq = if quick { 3 } else { 5 };
            b.add("rc/upgrade-vs-attempt", all, &[&[("pre", 2), ("claim", 5)], &[("pre", 3), ("claim", 5)]], bq);
            b.add("rc/two-upgraders", all, &[&[("pre", 2), ("claim", 5)]], if quick { 2 } else { 4 });
            b.add("rc/upgrade-vs-cascade-child", all, &[&[("age", 4), ("pre", 2), ("claim", 5)], &[("age", 4), ("pre", 3), ("claim", 5)]], bq);
            b.add("rc/ws-upgrade-vs-attempt", all, &[&[("pre", 2), ("claim", 5)], &[("pre", 3), ("claim", 5)]], bq);
            b.add("rc/ws-upgrade-vs-attempt", few, &[&[("pre", 2), ("dist", 15), ("claim", 5)], &[("pre", 2), ("dist", 16), ("claim", 5)], &[("pre", 2), ("dist", 17), ("claim", 5)], &[("pre", 2), ("dist", 32), ("claim", 5)], &[("pre", 3), ("dist", 16), ("claim", 5)]], bq);
            b.add("rc/upgrade-vs-attempt", few, &[&[("pre", 2), ("dist", 16), ("claim", 5)], &[("pre", 2), ("dist", 17), ("claim", 5)]], bq);
            b.add("rc/ws-upgrade-vs-cascade-child", all, &[&[("age", 4), ("pre", 2), ("claim", 5)]], bq);
            b.add("rc/weak-holder", all, &[&[("claim", 5)]], if quick { 2 } else { 4 });
            // a failed Weak::upgrade leaves the counts of the dead object consistent
            b.add("rc/weak-through-zero", few, &[&[("destructed", 2), ("pre", 2), ("claim", 5)], &[("destructed", 2), ("pre", 3), ("claim", 5)]], if quick { 3 } else { 4 });
            // the stamp that WeakSnapshot::upgrade leaves must survive a stalled dropper
            b.add_sliced("rc/stalled-dropper", if quick { &[0i64][..] } else { few }, &[&[("k", 0), ("viaweak", 1), ("claim", 5)]], 2, 8);
            let depth = if quick { 4 } else { 6 };
            for &e0 in (if quick { few } else { all }).iter() {
                b.add_cases("seq/upgrade-histories", e(e0).set("depth", depth).set("claim", 5), seq::upgrade_cases(depth as usize), 1500);
            }
            if !quick {
                for (init, pre) in [(2, 2), (3, 2)] {
                    for (k1, k2) in [(2, 1), (1, 2)] {
                        b.add_cases("gen/rc", e(5).set("k1", k1).set("k2", k2).set("init", init).set("pre", pre).set("claim", 5), crate::scen::gen::rc_cases(k1 as usize, k2 as usize), 40);
                    }
                }
                for u in b.units.iter_mut().filter(|u| u.scenario == "gen/rc") {
                    u.bound = 2;
                }
            }
            b.goal("seq/upgrade-histories", "upgrade-some");
            b.goal("seq/upgrade-histories", "upgrade-none");
            b.goal("rc/upgrade-vs-cascade-child", "upgrade-some");
            b.goal("rc/upgrade-vs-cascade-child", "upgrade-none");
            b.goal("rc/weak-holder", "upgrade-none");
            rule = "sequential: every history listed in the design over {last drop, round, Weak::upgrade, WeakSnapshot::upgrade}; concurrent: every schedule with at most B preemptions of the upgrade-racing programs; non-trivial = deviates from the default schedule or is a distinct sequential history";
            bounds = json!({"threads": "2-3", "preemptions": bq, "classes": sched::class_names(sched::RC), "e0": all});
        }
        "C04" => {
            let e0s = if quick { few } else { all };
            for &e0 in e0s.iter() {
                for shape in 0..seq::SHAPES {
                    for age in [4, 0] {
                        if quick && age == 0 && shape != 2 {
                            continue;
                        }
                        b.add_cases("seq/graphs", e(e0).set("shape", shape).set("age", age), seq::graph_cases(shape), 500);
                        if age == 4 && (!quick || e0 == 0) {
                            // handles released with Rc::finalize inside a critical section
                            b.add_cases("seq/graphs", e(e0).set("shape", shape).set("age", age).set("fin", 1), seq::graph_cases(shape), 500);
                            // edges released by AtomicRc::drop instead of pop_edges (none / only slot 0 popped)
                            // (4, 7: as 0 and 3, and every destructor enters a critical section
                            // and flushes - it re-enters the collector that is running it)
                            for pop in [0, 1, 4, 7] {
                                b.add_cases("seq/graphs", e(e0).set("shape", shape).set("age", age).set("pop", pop), seq::graph_cases(shape), 500);
                            }
                        }
                    }
                }
            }
            // every short history of link operations (including storing / swapping / CASing in
            // the object the link already holds) must leave nothing behind either
            {
                let depth = if quick { 3 } else { 4 };
                b.add_cases("seq/cell", e(0).set("noclaim", 1), seq::seq_cases(seq::cell_alphabet().len(), depth), 1500);
                b.add_cases("seq/wcell", e(0).set("noclaim", 1), seq::seq_cases(seq::wcell_alphabet().len(), depth), 1500);
                for &e0 in (if quick { &[0i64][..] } else { all }).iter() {
                    b.add_cases("seq/conv", e(e0).set("noclaim", 1), seq::conv_cases(), 40);
                    // bulk constructors release several shares at once
                    b.add_cases("seq/bulk", e(e0).set("noclaim", 1), seq::bulk_specs().len() as i64, 40);
                }
            }
            let bq = if quick { 2 } else { 4 };
            b.add("rc/concurrent-release", all, &[&[("shape", 0)], &[("shape", 1)], &[("shape", 2)]], bq);
            b.add("rc/dag-shared-child", all, &[&[("age", 4)], &[("age", 0)]], bq);
            b.add("rc/dag-shared-child", few, &[&[("age", 4), ("dpop", 7)]], bq);
            b.add("rc/concurrent-release", few, &[&[("shape", 0), ("dpop", 7)], &[("shape", 1), ("dpop", 7)]], bq);
            b.add("rc/last-weak-vs-destruct", all, &[&[("pre", 0)], &[("pre", 2)]], bq);
            b.add("rc/weak-through-zero", all, &[&[("destructed", 1), ("dropin", 1)], &[("destructed", 1), ("dropin", 0)], &[("destructed", 2), ("dropin", 1)]], bq.max(3));
            b.add("rc/weak-many-shares", all, &[], bq);
            b.add("rc/bulk-shares", all, &[&[("kind", 0)], &[("kind", 1)]], bq);
            {
                let from = b.units.len();
                let (k1, k2) = if quick { (1, 1) } else { (1, 2) };
                for init in 0..5 {
                    b.add_cases("gen/weak", e(0).set("k1", k1).set("k2", k2).set("init", init).set("pre", 2), crate::scen::gen::weak_cases(k1 as usize, k2 as usize), 36);
                }
                b.units[from..].iter_mut().for_each(|u| u.bound = 2);
            }
            b.goal("seq/graphs", "cascade-child-destructed");
            b.goal("rc/concurrent-release", "cascade-child-destructed");
            rule = "sequential: every permutation of releasing the external handles of 6 graph shapes x every placement of 0/1/4 rounds after each release x initial epochs; concurrent: every schedule with at most B preemptions of two threads releasing handles of one graph; judged by per-object lifecycle counters and emptiness after a bounded drain";
            bounds = json!({"shapes": 6, "handles": "3-4", "rounds_after_release": [0, 1, 4], "e0": e0s, "preemptions": bq});
        }
        "C06" => {
            let grid = if quick { 0 } else { 1 };
            let res: Vec<i64> = if quick { vec![0, 1, 2, 7, 13, 14, 15] } else { (0..16).collect() };
            for &e0 in res.iter() {
                b.add_cases("seq/latency", e(e0).set("grid", grid), seq::latency_cases(grid), if quick { 160 } else { 256 });
            }
            // the head is revived through a weak pointer during its grace period, and released
            for pickup in 1..=3 {
                for &e0 in (if quick { &[0i64, 13][..] } else { &res[..] }).iter() {
                    b.add_cases("seq/latency", e(e0).set("grid", 0).set("pickup", pickup), seq::latency_cases(0), 160);
                }
            }
            // held side leaves that stay in use (re-stamped every round) next to the spine
            for &e0 in res.iter() {
                for age in [4, 0] {
                    b.add_cases("seq/latency-busy", e(e0).set("age", age), seq::latency_busy_cases(), 40);
                }
            }
            // the held node is released by another thread while the cascade runs
            for kk in if quick { vec![1i64, 2] } else { vec![1, 2, 3, 4] } {
                b.add("rc/latency-vs-holder", if quick { few } else { all }, &[&[("n", 5), ("k", kk), ("age", 4)], &[("n", 5), ("k", kk), ("age", 0)]], if quick { 2 } else { 4 });
            }
            rule = "every point of the grid n x shape {chain, balanced tree, left comb, right comb, right spine (null edge before the live one), zig-zag} x held-node position x link age x link construction {store, From} x epoch residue; each case drops the head and counts epoch advances until the last destructor";
            bounds = json!({"n": if quick { seq::LAT_NS_QUICK.to_vec() } else { seq::LAT_NS.to_vec() }, "residues": res, "bound": "16 + 12*ceil(n/1024) epochs"});
        }
        "C08" => {
            let depth = if quick { 3 } else { 4 };
            let n = seq::cell_alphabet().len();
            for &e0 in (if quick { &[0i64, 15][..] } else { &[0i64, 5, 15][..] }).iter() {
                b.add_cases("seq/cell", e(e0), seq::seq_cases(n, depth), 1500);
            }
            // shorter histories at every residue of the epoch modulo 16 (a link's stamp is the
            // epoch of the write, an Rc made by the driver carries none: the two differ by the
            // residue, and residues 4, 8, 12 share low bits with 0), and with 5 more epochs between
            // the preparation of the expected values and the history
            for e0 in 1..=16 {
                for gap in [0, 5] {
                    b.add_cases("seq/cell", e(e0).set("gap", gap), seq::seq_cases(n, if quick { 2 } else { 3 }), 1500);
                }
            }
            // links made by conversion (From impls, AtomicRc::new) and emptied by take(): the
            // shares they own are part of the cell's contract
            b.add_cases("seq/conv", e(0).set("claim", 8).set("only", 0b1100_0011_0000), seq::conv_cases(), 40);
            let bq = if quick { 2 } else { 3 };
            b.add("cell/concurrent", if quick { few } else { all }, &[&[("prog", 0)], &[("prog", 1)], &[("prog", 2)], &[("prog", 3)], &[("prog", 4)], &[("prog", 5)]], bq);
            {
                // generated family: every pair of programs of k1 + k2 operations over 11 letters
                use crate::scen::cell::gen_cell_cases as cc;
                let from = b.units.len();
                let (k1, k2) = if quick { (1, 2) } else { (2, 2) };
                for &e0 in (if quick { &[0i64][..] } else { &[0i64, 15][..] }).iter() {
                    b.add_cases("cell/concurrent", e(e0).set("gen", 1).set("k1", k1).set("k2", k2), cc(k1 as usize, k2 as usize), if quick { 25 } else { 100 });
                }
                b.units[from..].iter_mut().for_each(|u| u.bound = 2);
            }
            rule = "sequential: every sequence of at most d operations over a 27-letter alphabet {load, store v, swap v, compare_exchange(exp,v), compare_exchange_weak, compare_exchange_tag(exp,t), epoch advance} compared step by step with a (pointer, tag) cell model; concurrent: every schedule with at most B preemptions of 2-3 threads x 1-2 operations on one cell, each complete history checked for linearizability by brute force; counts exact at quiescence";
            bounds = json!({"depth": depth, "alphabet": n, "preemptions": bq});
        }
        "C09" => {
            let depth = if quick { 3 } else { 4 };
            let n = seq::wcell_alphabet().len();
            for &e0 in (if quick { &[0i64, 15][..] } else { &[0i64, 5, 15][..] }).iter() {
                b.add_cases("seq/wcell", e(e0), seq::seq_cases(n, depth), 1500);
            }
            // (as for C08: every residue of the epoch modulo 16; an AtomicWeak does not stamp what
            // is stored, the expected values made from snapshots carry the epoch of their link)
            for e0 in 1..=16 {
                for gap in [0, 5] {
                    b.add_cases("seq/wcell", e(e0).set("gap", gap), seq::seq_cases(n, if quick { 2 } else { 3 }), 1500);
                }
            }
            // weak links made by conversion (From impls) and rewritten through get_mut()
            b.add_cases("seq/conv", e(0).set("claim", 9).set("only", 0b0011_1100_0000), seq::conv_cases(), 40);
            let bq = if quick { 2 } else { 3 };
            b.add("cell/wconcurrent", if quick { few } else { all }, &[&[("prog", 0)], &[("prog", 1)], &[("prog", 2)], &[("prog", 3)]], bq);
            {
                use crate::scen::cell::gen_cell_cases as cc;
                let from = b.units.len();
                let (k1, k2) = if quick { (1, 2) } else { (2, 2) };
                for &e0 in (if quick { &[0i64][..] } else { &[0i64, 15][..] }).iter() {
                    b.add_cases("cell/wconcurrent", e(e0).set("gen", 1).set("k1", k1).set("k2", k2), cc(k1 as usize, k2 as usize), if quick { 25 } else { 100 });
                }
                b.units[from..].iter_mut().for_each(|u| u.bound = 2);
            }
            rule = "as C08 for AtomicWeak, the expected WeakSnapshot obtained in three ways (from the cell, downgraded from a Snapshot loaded from an AtomicRc written at another epoch, taken from a Weak made from an Rc that came out of a swap)";
            bounds = json!({"depth": depth, "alphabet": n, "preemptions": bq});
        }
        "C10" => {
            let total = seq::bulk_specs().len() as i64;
            for &e0 in (if quick { few } else { all }).iter() {
                b.add_cases("seq/bulk", e(e0), total, 40);
            }
            b.add("rc/bulk-shares", all, &[&[("kind", 0), ("claim", 10)], &[("kind", 1), ("claim", 10)]], if quick { 2 } else { 4 });
            b.add("rc/weak-many-shares", all, &[&[("claim", 10)]], if quick { 2 } else { 4 });
            rule = "every configuration: new_many N in 0..=5; new_many_iter count in 0..=5 x consumed prefix x {drop, abort} x position of the iterator's end among the releases; weak_many N in 0..=4 x position of the receiver's release; each with and without rounds in between; plus concurrent release of the shares by two threads";
            bounds = json!({"N": "0..=5", "count": "0..=5", "weak N": "0..=4", "configurations": total});
        }
        "C13" | "C14" => {
            let two: &[i64] = &[0, 2, 5, 6, 7, 10, 11, 12];
            // the epoch counter wraps from 2^63-1 to 0: every distance is modular
            let wrap: &[i64] = &[i64::MAX, i64::MAX - 1, i64::MAX - 2, i64::MAX - 3];
            for &pr in (if quick { &[0i64, 6][..] } else { two }) {
                b.add("ebr/sections", wrap, &[&[("prog", pr), ("bag", 64)]], if quick { 1 } else { 2 });
            }
            let three: &[i64] = &[1, 3, 4, 8];
            let bags: &[i64] = &[64, 2];
            for &bag in bags {
                for &pr in two {
                    b.add("ebr/sections", &[0], &[&[("prog", pr), ("bag", bag)]], if quick { 2 } else { 3 });
                }
            }
            // one two-thread program deeper (quick: B=3; thorough: B=4)
            b.add_sliced("ebr/sections", &[0], &[&[("prog", 0), ("bag", 64)]], if quick { 3 } else { 4 }, 16);
            for &pr in three {
                for &bag in (if quick { &[64i64][..] } else { bags }) {
                    b.add_sliced("ebr/sections", &[0], &[&[("prog", pr), ("bag", bag)]], 2, 8);
                }
            }
            // nested guards, one of them reactivated twice, against a deferrer and two advancers:
            // thread 0 has to be interrupted three times, so only the driver's own points
            // (its three marks) are scheduling points here
            b.add("ebr/sections", &[0], &[&[("prog", 13), ("bag", 64), ("classes", 1 << sched::CLASS_DEREF)]], 3);
            // a deferred function that works under a guard of its own while four other threads
            // defer and advance: thread 0 has to be interrupted at each of its four marks
            b.add("ebr/sections", &[0], &[&[("prog", 16), ("bag", 64), ("classes", 1 << sched::CLASS_DEREF)]], 4);
            // the advancer is re-pinned inside its own try_advance() (finding #10)
            b.add_sliced("ebr/sections", &[0], &[&[("prog", 9), ("bag", 2)]], if quick { 2 } else { 3 }, if quick { 8 } else { 32 });
            if !quick {
                b.add_sliced("ebr/sections", &[0], &[&[("prog", 9), ("bag", 64)]], 2, 32);
                b.add_sliced("ebr/sections", &[0], &[&[("prog", 8), ("bag", 64)]], 3, 32);
                for &pr in two {
                    b.add("ebr/sections", &[7, 65535], &[&[("prog", pr), ("bag", 2)]], 2);
                }
            }
            if !quick {
                let k = 3;
                b.add_cases("gen/ebr", e(0).set("k", k).set("bag", 2), crate::scen::gen::ebr_cases(k as usize), 10);
                for u in b.units.iter_mut().filter(|u| u.scenario == "gen/ebr") {
                    u.bound = 1;
                }
            }
            if prop == "C14" {
                b.add("rc/long-disposal", &[0, 14], &[&[("n", 130)]], if quick { 1 } else { 2 });
                // every destructor of the chain pins and flushes: re-pins inside the cascade
                b.add("rc/long-disposal", &[0], &[&[("n", 130), ("dpop", 7)]], 1);
                b.goal("rc/long-disposal", "repinned");
                b.goal("rc/long-disposal", "cascade-child-destructed");
            }
            b.goal("ebr/sections", "closure-ran");
            b.goal("ebr/sections", "epoch-advanced");
            b.goal("ebr/sections", "repinned");
            rule = "every schedule with at most B preemptions, at every access of an epoch variable or of a queue/registry pointer, of 8 programs of 2-3 participants on a private collector (reader vs deferrer, two deferrers and a long reader, nested guards, racing advancers, registration during a traversal, reactivation, a collection that re-pins, unregistration under a live guard) x bag capacities; non-trivial = deviates from the default schedule, distinct by event-trace hash";
            bounds = json!({"threads": "2-3", "preemptions": if quick { "2-3 (2 threads) / 2 (3 threads)" } else { "3-4 (2 threads) / 2-3 (3 threads)" }, "classes": sched::class_names(sched::EBR), "bag_capacity": bags});
            let _ = three;
        }
        "C15" => {
            let bq = if quick { 2 } else { 3 };
            for mode in 0..5 {
                for j in 0..=3 {
                    for bag in [64, 2] {
                        b.add("ebr/exit", &[0], &[&[("mode", mode), ("j", j), ("bag", bag), ("k", 3)]], bq);
                    }
                }
            }
            // the survivor has held nested guards before (and dropped them in both orders)
            for mode in [0, 1, 2] {
                b.add("ebr/exit", &[0], &[&[("mode", mode), ("j", 1), ("bag", 64), ("k", 3), ("nested", 1)]], bq);
            }
            // the epoch counter wraps from 2^63-1 to 0 while the functions are pending
            for mode in [0, 1] {
                b.add("ebr/exit", &[i64::MAX, i64::MAX - 1, i64::MAX - 2, i64::MAX - 3, i64::MAX - 4], &[&[("mode", mode), ("j", 0), ("bag", 64), ("k", 3)]], if quick { 1 } else { 2 });
            }
            b.add_cases("ebr/payload", e(0), crate::scen::ebr::payload_cases(), 200);
            b.goal("ebr/exit", "closure-ran");
            b.goal("ebr/exit", "all-closures-accounted");
            b.goal("ebr/payload", "all-closures-accounted");
            rule = "concurrent: a thread defers 3 functions and leaves at every position in five ways (flush then exit, exit with the bag unflushed, handle dropped under a live guard, collector dropped with work pending, exit after a nested reactivation) while another runs rounds, every schedule with at most B preemptions; sequential: closure size {0,1,8,16,23,24,25,32,64,256} x alignment {1..64} x bag capacity {1,2,3,64} x 7 fill levels x the four ways of leaving; each function must run exactly once with its captured bytes intact";
            bounds = json!({"preemptions": bq, "classes": sched::class_names(sched::EBR), "payload_cases": crate::scen::ebr::payload_cases()});
        }
        "C16" => {
            let depth = if quick { 6 } else { 7 };
            let total = crate::scen::ebr::guard_seqs(depth as usize).len() as i64;
            for inside in [0, 1] {
                for peer in [0, 1] {
                    b.add_cases("ebr/guards", e(0).set("depth", depth).set("inside", inside).set("peer", peer), total, 400);
                }
            }
            for orphan in [1, 2] {
                b.add_cases("ebr/guards", e(0).set("orphan", orphan), crate::scen::ebr::orphan_cases(if quick { 5 } else { 7 }), 100);
            }
            // concurrent programs: nobody but the thread itself (reactivate) may move the epoch
            // its live guards were pinned in, whatever the other participants do
            for pr in [0i64, 2, 5, 6, 11, 14, 15] {
                b.add("ebr/sections", &[0], &[&[("prog", pr), ("bag", 64)]], if quick { 2 } else { 3 });
            }
            b.goal("ebr/sections", "guard-kept-by-deferred-function");
            b.goal("ebr/sections", "guard-inside-deferred-function-flushes");
            if !quick {
                b.add_sliced("ebr/sections", &[0], &[&[("prog", 8), ("bag", 64)]], 2, 16);
                b.add_sliced("ebr/sections", &[0], &[&[("prog", 1), ("bag", 2)]], 2, 16);
            }
            {
                let k = if quick { 2 } else { 3 };
                let from = b.units.len();
                b.add_cases("gen/ebr", e(0).set("k", k).set("bag", 2), crate::scen::gen::ebr_cases(k as usize), 10);
                b.units[from..].iter_mut().for_each(|u| u.bound = 1);
            }
            b.goal("ebr/guards", "orphan-guard-step");
            b.goal("ebr/guards", "reactivate-sole");
            b.goal("ebr/guards", "reactivate-after-sole");
            b.goal("ebr/guards", "reactivate-after-panic");
            b.goal("ebr/guards", "sequence-ran-inside-closure");
            rule = "every well-formed sequence of at most d operations over {pin, drop g_i, reactivate g_i, reactivate_after(g_i, f)} with at most 3 live guards and f in {nop, nested pin+drop, panic}, at top level and inside a deferred function running during the thread's own collection, next to a second participant (pinned or not); plus every sequence of reactivations on a guard that has outlived its last handle; after every step guard count, pinned bit, pinned epoch and the peer's state are compared with a nesting model";
            bounds = json!({"depth": depth, "sequences": total, "contexts": 2, "peer": 2});
        }
        "C17" => {
            let bq = if quick { 3 } else { 4 };
            for pr in 0..9 {
                // (thorough: B=4 for the two-thread programs and the short three-thread ones; the
                // others stay at 3 - all nine at 4 no longer fit into the wall cap since the
                // elements have destructors and every execution ends with rounds and a push/pop)
                let deep = quick || [1i64, 2, 4, 5, 7].contains(&pr);
                b.add("ebr/queue", &[0], &[&[("prog", pr)]], if deep { bq } else { 3 });
            }
            if !quick {
                for pr in [0i64, 1, 2, 5, 7] {
                    b.add("ebr/queue", &[0], &[&[("prog", pr), ("classes", sched::EBR as i64)]], 2);
                }
            }
            // generated family: every pair of 2-operation programs over 5 letters x 4 initial queues
            {
                use crate::scen::ebr::gen_queue_cases as qc;
                let mut from = b.units.len();
                b.add_cases("ebr/queue", e(0).set("gen", 1).set("threads", 2).set("k", 2), qc(2, 2), 50);
                b.units[from..].iter_mut().for_each(|u| u.bound = 2);
                if !quick {
                    from = b.units.len();
                    b.add_cases("ebr/queue", e(0).set("gen", 1).set("threads", 2).set("k", 3), qc(2, 3), 250);
                    b.units[from..].iter_mut().for_each(|u| u.bound = 2);
                    from = b.units.len();
                    b.add_cases("ebr/queue", e(0).set("gen", 1).set("threads", 3).set("k", 2), qc(3, 2), 250);
                    b.units[from..].iter_mut().for_each(|u| u.bound = 1);
                }
            }
            b.goal("ebr/queue", "history-checked");
            b.goal("ebr/queue", "empty-pop");
            rule = "every schedule with at most B preemptions (at every access of a queue pointer) of 9 programs of 2-3 threads x 1-2 operations over {push v, try_pop, try_pop_if(even), try_pop_if(<2)} on an empty / one-element / two-element queue; every complete history checked for linearizability against a FIFO with conditional pop by brute force";
            bounds = json!({"threads": "2-3", "preemptions": bq, "classes": ["Raw"]});
        }
        "C18" => {
            let bq = if quick { 3 } else { 4 };
            for pr in 0..7 {
                b.add("ebr/list", &[0], &[&[("prog", pr)]], bq);
            }
            b.add_sliced("ebr/sections", &[0], &[&[("prog", 4), ("bag", 64), ("claim", 18)]], 2, 4);
            // the consumer of the stall report: try_advance() must not advance after a stalled
            // traversal (a participant pinned one epoch behind sits behind the stall position)
            b.add("ebr/sections", &[0, 15], &[&[("prog", 10), ("bag", 64), ("claim", 18)]], if quick { 3 } else { 5 });
            {
                use crate::scen::ebr::gen_list_cases as lc;
                let mut from = b.units.len();
                b.add_cases("ebr/list", e(0).set("gen", 1).set("threads", 2).set("k", 2), lc(2, 2), 24);
                b.units[from..].iter_mut().for_each(|u| u.bound = 2);
                if !quick {
                    from = b.units.len();
                    b.add_cases("ebr/list", e(0).set("gen", 1).set("threads", 2).set("k", 3), lc(2, 3), 100);
                    b.units[from..].iter_mut().for_each(|u| u.bound = 2);
                    from = b.units.len();
                    b.add_cases("ebr/list", e(0).set("gen", 1).set("threads", 3).set("k", 2), lc(3, 2), 100);
                    b.units[from..].iter_mut().for_each(|u| u.bound = 2);
                }
            }
            b.goal("ebr/list", "traverse-stalled");
            b.goal("ebr/list", "traverse-complete");
            b.goal("ebr/list", "list-finalize");
            rule = "every schedule with at most B preemptions (at every access of a list pointer) of 6 programs of 2-3 threads over {insert, delete, traverse} on the real registry list with a harness element type; a traversal that does not stall must have visited every element inserted before it began and not deleted before it ended; every deleted element is unlinked exactly once; plus registration and unregistration of real participants during try_advance";
            bounds = json!({"threads": "2-3", "preemptions": bq, "classes": ["Raw"]});
        }
        "C20" => {
            let total = crate::scen::tls::cases();
            for &e0 in (if quick { &[0i64, 14][..] } else { &[0i64, 5, 14, 65535][..] }).iter() {
                b.add_cases("tls/destructor", e(e0), total, 30);
            }
            // the same with a second thread running rounds, teardown steps interleaved with it
            let classes = sched::ALL as i64;
            b.add_cases("tls/destructor", e(0).set("peer", 1).set("classes", classes).set("chain", 12), total, 6);
            b.units.iter_mut().filter(|u| u.params.get("peer", 0) == 1).for_each(|u| u.bound = if quick { 1 } else { 2 });
            b.goal("tls/destructor", "tls-destructor-ran");
            rule = "every combination of TLS initialisation order {objects before the participant handle, after it, without it, around it} x destructor action of the first object (9) x of an optional second object (9+1): sequentially, and with a second thread running rounds under every schedule with at most B preemptions at all yield points (the thread's teardown runs under the scheduler); the thread must finish without panic or abort, every participant must unregister, and a survivor must reclaim everything within a bounded drain";
            bounds = json!({"orders": 4, "actions": 9, "objects": "1-2", "cases": total, "preemptions": if quick { 1 } else { 2 }});
        }
        "C12" => {
            let total = seq::decision_triples().len() as i64;
            let mut e0s: Vec<i64> = (0..16).collect();
            if !quick {
                e0s.extend([65530, 65535, 65536, 4294967290, 4294967296, 1099511627776, i64::MAX - 40, i64::MAX - 33, i64::MAX - 30]);
            } else {
                // (the last one: the cascades run in the last thirty epochs there are)
                e0s = vec![0, 3, 8, 13, 15, 65535, i64::MAX - 33];
            }
            for &e0 in e0s.iter() {
                b.add_cases("seq/cascade-decision", e(e0), total, 500);
            }
            // the decision deep inside a long cascade uses the epoch of the moment
            b.add("rc/long-cascade", &[20, 37, 53], &[&[("claim", 12)]], 2);
            b.goal("seq/cascade-decision", "child-immediate");
            b.goal("seq/cascade-decision", "child-deferred");
            rule = "end to end: parent->child with every triple of true stamp ages (parent 3..=20, link parent..=24, child 0..=24) x initial epochs: whether the real cascade reclaims the child in the parent's pass must agree with the reference on true ages".to_string().leak();
            bounds = json!({"triples": total, "e0": e0s});
        }
        _ => return None,
    }
    // big (sliced) units first, so that the long ones do not start last
    b.units.sort_by_key(|u| if u.slice.1 > 1 { 0 } else { 1 });
    if let Ok(only) = std::env::var("VERIF_ONLY") {
        // development aid: restrict a check to the scenarios with this name prefix
        b.units.retain(|u| u.scenario.starts_with(&only));
        b.goals.retain(|g| g.scenario.starts_with(&only));
    }
    if prop == "C16" || prop == "C20" {
        // "does not panic" is part of these properties: run everything a second time in the
        // binary with debug assertions on, where a wrong debug_assert! aborts inside a destructor
        let mut dbg: Vec<Unit> = b.units.iter().cloned().collect();
        for u in dbg.iter_mut() {
            u.dbg = true;
            u.params = u.params.clone().set("dbg", 1);
        }
        b.units.extend(dbg);
        for u in b.units.iter_mut() {
            u.death_is_violation = true;
        }
    }
    for u in b.units.iter_mut() {
        // a guard that has outlived its handle is reactivated: a library that unregisters the
        // participant there finalizes it a second time at the last unpin and kills the process
        // in every schedule, including the first one explored
        if u.scenario == "ebr/sections" && u.params.get("prog", 0) == 11 {
            u.death_is_violation = true;
        }
        // the list asserts its own invariants (every entry marked when the list is dropped): a
        // panic in a program that only inserts, deletes and traverses is the list's verdict
        if u.scenario == "ebr/list" {
            u.death_is_violation = true;
        }
    }
    Some(Plan {
        prop: prop.to_string(),
        tier: tier.to_string(),
        units: b.units,
        goals: b.goals,
        rule: rule.to_string(),
        assumptions: assumptions(),
        bounds,
        wall_cap_s: if quick { 50 } else { 900 },
    })
}

pub fn assumptions() -> Vec<String> {
    vec![
        "sequential consistency: threads are serialized at yield points placed before every shared atomic access, so Relaxed/Acquire/Release choices and fences are not exercised".into(),
        "data races on non-atomic memory are invisible to a cooperative scheduler".into(),
        "bounds as listed (threads, preemptions, program length, initial epochs); counter overflow and allocation failure out of scope".into(),
        "the hooks (feature circ_verif) only observe and yield; the dealloc quarantine only postpones free()".into(),
    ]
}

fn write_replay(prop: &str, n: usize, f: &Found) -> String {
    let _ = std::fs::create_dir_all(format!("{}/replays", out_dir()));
    let path = format!("{}/replays/{}-{}.json", out_dir(), prop, n);
    let _ = std::fs::write(
        &path,
        serde_json::to_string_pretty(&runner::replay_json(f)).unwrap(),
    );
    path
}

/// Where evidence and replay files go: /verif, unless a measuring run (tools/coverage.sh) wants
/// them out of the way.
fn out_dir() -> String {
    std::env::var("VERIF_OUT").unwrap_or_else(|_| "/verif".to_string())
}

pub fn check(prop: &str, tier: &str, seed: i64) -> i32 {
    let t0 = std::time::Instant::now();
    let (known_all, _fixed) = runner::load_known();
    let known: Vec<runner::Known> = known_all.into_iter().filter(|k| k.property == prop).collect();
    let known2: Vec<runner::Known> = known.iter().map(|k| runner::Known { property: k.property.clone(), scenario: k.scenario.clone(), kind: k.kind.clone(), describe: k.describe.clone() }).collect();
    let known_desc: Vec<(String, String, String)> = known
        .iter()
        .map(|k| (k.scenario.clone(), k.kind.clone(), k.describe.clone()))
        .collect();

    let plan = plan(prop, tier);
    let pure_res = pure::run(prop, tier, &known);
    if plan.is_none() && pure_res.is_none() {
        eprintln!("no check for property {}", prop);
        return 2;
    }

    let mut evaluations: u64 = 0;
    let mut states: u64 = 0;
    let mut transitions: u64 = 0;
    let mut traces: u64 = 0;
    let mut nontrivial: u64 = 0;
    let mut samples: Vec<Value> = vec![];
    let mut per_scenario: Vec<Value> = vec![];
    let mut caps: Vec<String> = vec![];
    let mut machinery: Vec<String> = vec![];
    let mut violations: Vec<String> = vec![];
    let mut known_lines: Vec<String> = vec![];
    let mut rule = String::new();
    let mut bounds = json!({});
    let mut assumptions_v = assumptions();
    let mut exhaustive = true;
    let mut nviol = 0usize;
    let mut known_counts: Vec<u64> = vec![0; known_desc.len()];

    if let Some(plan) = plan {
        rule = plan.rule.clone();
        bounds = plan.bounds.clone();
        let out = runner::run_units(&plan, known2);
        for (name, s) in out.agg.scen.iter() {
            evaluations += s.executions;
            states += s.hashes.len() as u64;
            transitions += s.steps;
            traces += s.executions;
            nontrivial += s.nontrivial.len() as u64;
            if s.capped {
                exhaustive = false;
                caps.push(format!("{}: stopped early (deadline, violation or machinery)", name));
            }
            for smp in s.samples.iter().take(1) {
                if samples.len() < 12 {
                    samples.push(smp.clone());
                }
            }
            per_scenario.push(json!({
                "id": name, "units": s.units, "cases": s.cases, "executions": s.executions,
                "decisions_max": s.decisions_max, "by_preemptions": s.by_preemptions.to_vec(),
                "distinct_traces": s.hashes.len(), "outcomes": s.outcomes.len(),
                "steps": s.steps, "preemption_bound": s.bound, "cover": s.cover, "capped": s.capped,
            }));
        }
        for g in out.goals_unmet.iter() {
            machinery.push(format!("cover goal not met: {}", g));
        }
        machinery.extend(out.agg.machinery.iter().cloned());
        for (k, n) in out.agg.foreign.iter() {
            println!("NOTE: violation of another property observed {} time(s): {}", n, k);
        }
        for (i, n) in out.agg.known_hits.iter() {
            known_counts[*i] += n;
        }
        for f in out.agg.found.iter() {
            nviol += 1;
            let path = write_replay(prop, nviol, f);
            violations.push(format!(
                "VIOLATION property={} replay={}\n  {}: {} [{}] in {} [{}] case {} choices {}",
                prop, path, f.kind, f.detail, f.op, f.scenario, f.params.render(), f.case, f.choices
            ));
        }
    }

    if let Some(pr) = pure_res {
        evaluations += pr.evaluations;
        states += pr.distinct;
        transitions += pr.evaluations;
        traces += pr.evaluations;
        nontrivial += pr.distinct;
        if !rule.is_empty() {
            rule.push_str("; ");
        }
        rule.push_str(&pr.rule);
        for s in pr.samples.iter().take(6) {
            samples.push(s.clone());
        }
        per_scenario.extend(pr.per_part.iter().cloned());
        if !pr.exhaustive {
            exhaustive = false;
            caps.push("grid part stopped early".into());
        }
        machinery.extend(pr.machinery.iter().cloned());
        assumptions_v.extend(pr.assumptions.iter().cloned());
        if bounds == json!({}) {
            bounds = pr.bounds.clone();
        } else {
            bounds["grid"] = pr.bounds.clone();
        }
        for i in pr.known_hits.iter() {
            known_counts[*i] += 1;
        }
        for v in pr.violations.iter() {
            nviol += 1;
            let _ = std::fs::create_dir_all(format!("{}/replays", out_dir()));
            let path = format!("{}/replays/{}-{}.json", out_dir(), prop, nviol);
            let _ = std::fs::write(&path, serde_json::to_string_pretty(&v.replay).unwrap());
            violations.push(format!(
                "VIOLATION property={} replay={}\n  {}: {}",
                prop, path, v.kind, v.detail
            ));
        }
    }

    let wall = t0.elapsed().as_secs_f64();
    let evidence = json!({
        "property_id": prop,
        "tier": tier,
        "seed": seed,
        "level": "model_checking",
        "coverage": {
            "states": states.max(1),
            "transitions": transitions.max(1),
            "traces_validated_against_impl": traces,
            "evaluations": evaluations,
            "distinct_nontrivial": nontrivial,
            "rule": rule,
            "samples": samples,
            "exhaustive": exhaustive && machinery.is_empty(),
            "bounds": bounds,
            "per_scenario": per_scenario,
            "caps_hit": caps,
            "explanation": "stateless model checking of the real implementation: every explored trace is an execution of /repo's current tree under the cooperative scheduler, so traces_validated_against_impl equals the number of executions",
        },
        "assumptions": assumptions_v,
        "wall_s": wall,
        "violations": nviol,
    });
    let _ = std::fs::create_dir_all(format!("{}/evidence", out_dir()));
    let _ = std::fs::write(
        format!("{}/evidence/{}.json", out_dir(), prop),
        serde_json::to_string_pretty(&evidence).unwrap(),
    );

    for (i, (scen, kind, desc)) in known_desc.iter().enumerate() {
        known_lines.push(format!(
            "KNOWN-FINDING: property={} {} [{} {}; reproduced {} time(s) in this run]",
            prop, desc, scen, kind, known_counts[i]
        ));
    }
    for l in known_lines {
        println!("{}", l);
    }
    for v in violations.iter() {
        println!("{}", v);
    }
    println!(
        "{} {}: {} executions/cases, {} distinct traces, {} steps, exhaustive={}, {:.1}s",
        prop,
        tier,
        evaluations,
        states,
        transitions,
        exhaustive && machinery.is_empty(),
        wall
    );
    if !violations.is_empty() {
        return 1;
    }
    if !machinery.is_empty() {
        for m in machinery.iter().take(20) {
            eprintln!("MACHINERY: {}", m);
        }
        return 2;
    }
    0
}
