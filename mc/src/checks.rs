//! Per-property check plans, verdicts and evidence files.

use serde_json::{json, Value};

use crate::exec::Params;
use crate::pure;
use crate::runner::{self, goal, Found, Goal, Plan, Unit};
use crate::sched;

pub const E0_ALL: [i64; 17] = [0, 1, 2, 3, 4, 5, 6, 7, 8, 9, 10, 11, 12, 13, 14, 15, 65534];
pub const E0_FEW: [i64; 4] = [0, 6, 11, 14];

fn e(e0: i64) -> Params {
    Params::default().set("e0", e0)
}

struct B {
    units: Vec<Unit>,
    goals: Vec<Goal>,
}

impl B {
    fn new() -> B {
        B {
            units: vec![],
            goals: vec![],
        }
    }
    /// scenario x e0 set x extra parameter combinations
    fn add(&mut self, scen: &str, e0s: &[i64], extra: &[&[(&str, i64)]], bound: usize) {
        for &e0 in e0s {
            if extra.is_empty() {
                self.units.push(Unit::new(scen, e(e0), bound));
            }
            for kv in extra {
                let mut p = e(e0);
                for (k, v) in kv.iter() {
                    p = p.set(k, *v);
                }
                self.units.push(Unit::new(scen, p, bound));
            }
        }
    }
    /// like `add`, each unit split into `k` slices of the schedule tree
    fn add_sliced(&mut self, scen: &str, e0s: &[i64], extra: &[&[(&str, i64)]], bound: usize, k: usize) {
        let from = self.units.len();
        self.add(scen, e0s, extra, bound);
        let base: Vec<Unit> = self.units.drain(from..).collect();
        for u in base {
            for j in 0..k {
                self.units.push(u.clone().slice(j, k));
            }
        }
    }
    fn goal(&mut self, scen: &str, key: &str) {
        self.goals.push(goal(scen, key));
    }
}

const RC_EBR: i64 = sched::ALL as i64;

pub fn plan(prop: &str, tier: &str) -> Option<Plan> {
    let quick = tier == "quick";
    let mut b = B::new();
    let all: &[i64] = &E0_ALL;
    let few: &[i64] = &E0_FEW;
    let rule;
    let mut bounds = json!({});
    match prop {
        "C01" => {
            let bq = if quick { 3 } else { 5 };
            b.add("rc/upgrade-vs-attempt", all, &[&[("pre", 2)], &[("pre", 3)]], bq);
            b.add("rc/two-upgraders", all, &[&[("pre", 2)]], if quick { 2 } else { 4 });
            b.add("rc/counted-vs-last-drop", all, &[&[("age", 0)], &[("age", 4)]], bq);
            b.add("rc/counted-on-cascade-child", all, &[&[("age", 4)], &[("age", 1)]], bq);
            b.add("rc/transfer", all, &[&[("third", 0)]], bq);
            b.add("rc/transfer", if quick { few } else { all }, &[&[("third", 1)]], if quick { 2 } else { 3 });
            b.add("rc/dag-shared-child", all, &[&[("age", 4)], &[("age", 0)]], bq);
            b.add("rc/upgrade-vs-cascade-child", all, &[&[("age", 4), ("pre", 2)], &[("age", 4), ("pre", 3)]], bq);
            b.add("rc/bulk-shares", all, &[&[("kind", 0)], &[("kind", 1)]], if quick { 2 } else { 4 });
            if !quick {
                // the epoch collector's own steps become scheduling points too
                for s in ["rc/upgrade-vs-attempt", "rc/counted-vs-last-drop", "rc/upgrade-vs-cascade-child"] {
                    b.add(s, few, &[&[("classes", RC_EBR)]], 2);
                }
            }
            b.goal("rc/upgrade-vs-attempt", "upgrade-some");
            b.goal("rc/upgrade-vs-attempt", "try-destruct-ran");
            b.goal("rc/counted-on-cascade-child", "cascade-child-destructed");
            b.goal("rc/upgrade-vs-cascade-child", "upgrade-some");
            b.goal("rc/upgrade-vs-cascade-child", "upgrade-none");
            rule = "every schedule with at most B preemptions of each listed 2-3 thread program, for every initial epoch listed; an execution is non-trivial if it deviates from the default schedule at least once, distinct by event-trace hash";
            bounds = json!({"threads": "2-3", "preemptions": bq, "classes": sched::class_names(sched::RC), "e0": all});
        }
        "C02" => {
            let bq = if quick { 3 } else { 5 };
            b.add("rc/reader-vs-root-reclaim", all, &[&[("age", 0)], &[("age", 4)]], bq);
            b.add("rc/reader-second-path", all, &[&[("age", 4), ("pre", 2)]], if quick { 2 } else { 3 });
            b.add("rc/reader-second-path", if quick { few } else { all }, &[&[("age", 0), ("pre", 2)], &[("age", 4), ("pre", 3)]], if quick { 2 } else { 3 });
            b.add_sliced("rc/stalled-dropper", if quick { few } else { all }, &[&[("k", 0)]], 2, if quick { 8 } else { 4 });
            if !quick {
                b.add_sliced("rc/stalled-dropper", few, &[&[("k", 3)]], 2, 4);
            }
            b.add("rc/failed-cas-current", all, &[], bq);
            b.add("rc/snapshot-then-drop", all, &[&[("age", 4), ("pre", 2)], &[("age", 0), ("pre", 2)]], bq);
            b.add("rc/ws-upgrade-vs-attempt", all, &[&[("pre", 2)], &[("pre", 3)]], bq);
            b.add("rc/ws-upgrade-vs-cascade-child", all, &[&[("age", 4), ("pre", 2)]], bq);
            b.add("rc/reactivate", all, &[], if quick { 2 } else { 4 });
            b.add("rc/link-into-unlinked", if quick { few } else { all }, &[&[("pre", 2)], &[("pre", 0)]], if quick { 2 } else { 3 });
            if !quick {
                for s in ["rc/reader-vs-root-reclaim", "rc/reader-second-path", "rc/ws-upgrade-vs-cascade-child"] {
                    b.add(s, few, &[&[("classes", RC_EBR)]], 2);
                }
            }
            b.goal("rc/stalled-dropper", "cascade-child-destructed");
            b.goal("rc/reader-second-path", "try-destruct-ran");
            b.goal("rc/ws-upgrade-vs-cascade-child", "upgrade-some");
            b.goal("rc/ws-upgrade-vs-attempt", "upgrade-some");
            rule = "every schedule with at most B preemptions of each listed reader/unlinker/reclaimer program (2-5 threads), for every initial epoch listed; non-trivial = deviates from the default schedule, distinct by event-trace hash";
            bounds = json!({"threads": "2-5", "preemptions": bq, "classes": sched::class_names(sched::RC), "e0": all});
        }
        "C03" => {
            let bq = if quick { 3 } else { 5 };
            b.add("rc/weak-holder", all, &[], if quick { 2 } else { 4 });
            b.add("rc/weak-through-zero", all, &[&[("destructed", 1)], &[("destructed", 0)], &[("destructed", 2), ("pre", 2)], &[("destructed", 2), ("pre", 3)]], bq);
            b.add("rc/last-weak-vs-destruct", all, &[&[("pre", 0)], &[("pre", 2)], &[("pre", 3)]], bq);
            b.add("rc/weak-many-shares", all, &[], if quick { 2 } else { 4 });
            b.goal("rc/weak-holder", "upgrade-none");
            b.goal("rc/weak-holder", "upgrade-some");
            rule = "every schedule with at most B preemptions of each listed weak/strong program; non-trivial = deviates from the default schedule, distinct by event-trace hash";
            bounds = json!({"threads": 2, "preemptions": bq, "classes": sched::class_names(sched::RC), "e0": all});
        }
        "C05" => {
            let bq = if quick { 3 } else { 5 };
            b.add("rc/upgrade-vs-attempt", all, &[&[("pre", 2), ("claim", 5)], &[("pre", 3), ("claim", 5)]], bq);
            b.add("rc/two-upgraders", all, &[&[("pre", 2), ("claim", 5)]], if quick { 2 } else { 4 });
            b.add("rc/upgrade-vs-cascade-child", all, &[&[("age", 4), ("pre", 2), ("claim", 5)], &[("age", 4), ("pre", 3), ("claim", 5)]], bq);
            b.add("rc/ws-upgrade-vs-attempt", all, &[&[("pre", 2), ("claim", 5)], &[("pre", 3), ("claim", 5)]], bq);
            b.add("rc/ws-upgrade-vs-cascade-child", all, &[&[("age", 4), ("pre", 2), ("claim", 5)]], bq);
            b.add("rc/weak-holder", all, &[&[("claim", 5)]], if quick { 2 } else { 4 });
            b.goal("rc/upgrade-vs-cascade-child", "upgrade-some");
            b.goal("rc/upgrade-vs-cascade-child", "upgrade-none");
            b.goal("rc/weak-holder", "upgrade-none");
            rule = "sequential: every history listed in the design over {last drop, round, Weak::upgrade, WeakSnapshot::upgrade}; concurrent: every schedule with at most B preemptions of the upgrade-racing programs; non-trivial = deviates from the default schedule or is a distinct sequential history";
            bounds = json!({"threads": "2-3", "preemptions": bq, "classes": sched::class_names(sched::RC), "e0": all});
        }
        _ => return None,
    }
    Some(Plan {
        prop: prop.to_string(),
        tier: tier.to_string(),
        units: b.units,
        goals: b.goals,
        rule: rule.to_string(),
        assumptions: assumptions(),
        bounds,
        wall_cap_s: if quick { 50 } else { 900 },
    })
}

pub fn assumptions() -> Vec<String> {
    vec![
        "sequential consistency: threads are serialized at yield points placed before every shared atomic access, so Relaxed/Acquire/Release choices and fences are not exercised".into(),
        "data races on non-atomic memory are invisible to a cooperative scheduler".into(),
        "bounds as listed (threads, preemptions, program length, initial epochs); counter overflow and allocation failure out of scope".into(),
        "the hooks (feature circ_verif) only observe and yield; the dealloc quarantine only postpones free()".into(),
    ]
}

fn write_replay(prop: &str, n: usize, f: &Found) -> String {
    let _ = std::fs::create_dir_all("/verif/replays");
    let path = format!("/verif/replays/{}-{}.json", prop, n);
    let _ = std::fs::write(
        &path,
        serde_json::to_string_pretty(&runner::replay_json(f)).unwrap(),
    );
    path
}

pub fn check(prop: &str, tier: &str, seed: i64) -> i32 {
    let t0 = std::time::Instant::now();
    let (known_all, _fixed) = runner::load_known();
    let known: Vec<runner::Known> = known_all.into_iter().filter(|k| k.property == prop).collect();
    let known_desc: Vec<(String, String, String)> = known
        .iter()
        .map(|k| (k.scenario.clone(), k.kind.clone(), k.describe.clone()))
        .collect();

    let plan = plan(prop, tier);
    let pure_res = pure::run(prop, tier);
    if plan.is_none() && pure_res.is_none() {
        eprintln!("no check for property {}", prop);
        return 2;
    }

    let mut evaluations: u64 = 0;
    let mut states: u64 = 0;
    let mut transitions: u64 = 0;
    let mut traces: u64 = 0;
    let mut nontrivial: u64 = 0;
    let mut samples: Vec<Value> = vec![];
    let mut per_scenario: Vec<Value> = vec![];
    let mut caps: Vec<String> = vec![];
    let mut machinery: Vec<String> = vec![];
    let mut violations: Vec<String> = vec![];
    let mut known_lines: Vec<String> = vec![];
    let mut rule = String::new();
    let mut bounds = json!({});
    let mut assumptions_v = assumptions();
    let mut exhaustive = true;
    let mut nviol = 0usize;

    if let Some(plan) = plan {
        rule = plan.rule.clone();
        bounds = plan.bounds.clone();
        let out = runner::run_units(&plan, known);
        for (name, s) in out.agg.scen.iter() {
            evaluations += s.executions;
            states += s.hashes.len() as u64;
            transitions += s.steps;
            traces += s.executions;
            nontrivial += s.nontrivial.len() as u64;
            if s.capped {
                exhaustive = false;
                caps.push(format!("{}: stopped early (deadline, violation or machinery)", name));
            }
            for smp in s.samples.iter().take(1) {
                if samples.len() < 12 {
                    samples.push(smp.clone());
                }
            }
            per_scenario.push(json!({
                "id": name, "units": s.units, "cases": s.cases, "executions": s.executions,
                "decisions_max": s.decisions_max, "by_preemptions": s.by_preemptions.to_vec(),
                "distinct_traces": s.hashes.len(), "outcomes": s.outcomes.len(),
                "steps": s.steps, "preemption_bound": s.bound, "cover": s.cover, "capped": s.capped,
            }));
        }
        for g in out.goals_unmet.iter() {
            machinery.push(format!("cover goal not met: {}", g));
        }
        machinery.extend(out.agg.machinery.iter().cloned());
        for (k, n) in out.agg.foreign.iter() {
            println!("NOTE: violation of another property observed {} time(s): {}", n, k);
        }
        for (i, (scen, kind, desc)) in known_desc.iter().enumerate() {
            let hits = out.agg.known_hits.get(&i).copied().unwrap_or(0);
            known_lines.push(format!(
                "KNOWN-FINDING: property={} {} [{} {}; reproduced in {} execution(s) of this run]",
                prop, desc, scen, kind, hits
            ));
        }
        for f in out.agg.found.iter() {
            nviol += 1;
            let path = write_replay(prop, nviol, f);
            violations.push(format!(
                "VIOLATION property={} replay={}\n  {}: {} [{}] in {} [{}] case {} choices {}",
                prop, path, f.kind, f.detail, f.op, f.scenario, f.params.render(), f.case, f.choices
            ));
        }
    }

    if let Some(pr) = pure_res {
        evaluations += pr.evaluations;
        states += pr.distinct;
        transitions += pr.evaluations;
        traces += pr.evaluations;
        nontrivial += pr.distinct;
        if !rule.is_empty() {
            rule.push_str("; ");
        }
        rule.push_str(&pr.rule);
        for s in pr.samples.iter().take(6) {
            samples.push(s.clone());
        }
        per_scenario.extend(pr.per_part.iter().cloned());
        if !pr.exhaustive {
            exhaustive = false;
            caps.push("grid part stopped early".into());
        }
        machinery.extend(pr.machinery.iter().cloned());
        assumptions_v.extend(pr.assumptions.iter().cloned());
        if bounds == json!({}) {
            bounds = pr.bounds.clone();
        } else {
            bounds["grid"] = pr.bounds.clone();
        }
        for (i, (scen, kind, desc)) in known_desc.iter().enumerate() {
            let _ = i;
            let hits = pr.known_hits.iter().filter(|(s, k)| s == scen && k == kind).count();
            if hits > 0 || !known_lines.iter().any(|l| l.contains(desc.as_str())) {
                known_lines.retain(|l| !l.contains(desc.as_str()));
                known_lines.push(format!(
                    "KNOWN-FINDING: property={} {} [{} {}; reproduced in {} case(s) of this run]",
                    prop, desc, scen, kind, hits
                ));
            }
        }
        for v in pr.violations.iter() {
            nviol += 1;
            let _ = std::fs::create_dir_all("/verif/replays");
            let path = format!("/verif/replays/{}-{}.json", prop, nviol);
            let _ = std::fs::write(&path, serde_json::to_string_pretty(&v.replay).unwrap());
            violations.push(format!(
                "VIOLATION property={} replay={}\n  {}: {}",
                prop, path, v.kind, v.detail
            ));
        }
    }

    let wall = t0.elapsed().as_secs_f64();
    let evidence = json!({
        "property_id": prop,
        "tier": tier,
        "seed": seed,
        "level": "model_checking",
        "coverage": {
            "states": states.max(1),
            "transitions": transitions.max(1),
            "traces_validated_against_impl": traces,
            "evaluations": evaluations,
            "distinct_nontrivial": nontrivial,
            "rule": rule,
            "samples": samples,
            "exhaustive": exhaustive && machinery.is_empty(),
            "bounds": bounds,
            "per_scenario": per_scenario,
            "caps_hit": caps,
            "explanation": "stateless model checking of the real implementation: every explored trace is an execution of /repo's current tree under the cooperative scheduler, so traces_validated_against_impl equals the number of executions",
        },
        "assumptions": assumptions_v,
        "wall_s": wall,
        "violations": nviol,
    });
    let _ = std::fs::create_dir_all("/verif/evidence");
    let _ = std::fs::write(
        format!("/verif/evidence/{}.json", prop),
        serde_json::to_string_pretty(&evidence).unwrap(),
    );

    for l in known_lines {
        println!("{}", l);
    }
    for v in violations.iter() {
        println!("{}", v);
    }
    println!(
        "{} {}: {} executions/cases, {} distinct traces, {} steps, exhaustive={}, {:.1}s",
        prop,
        tier,
        evaluations,
        states,
        transitions,
        exhaustive && machinery.is_empty(),
        wall
    );
    if !violations.is_empty() {
        return 1;
    }
    if !machinery.is_empty() {
        for m in machinery.iter().take(20) {
            eprintln!("MACHINERY: {}", m);
        }
        return 2;
    }
    0
}
