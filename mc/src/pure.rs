//! Engine E, pure part: exhaustive enumeration of finite input grids against reference models.

use serde_json::Value;

pub struct PureViolation {
    pub kind: String,
    pub detail: String,
    pub replay: Value,
}

#[derive(Default)]
pub struct PureResult {
    pub evaluations: u64,
    pub distinct: u64,
    pub rule: String,
    pub samples: Vec<Value>,
    pub per_part: Vec<Value>,
    pub exhaustive: bool,
    pub machinery: Vec<String>,
    pub assumptions: Vec<String>,
    pub bounds: Value,
    /// (scenario, kind) of known findings reproduced
    pub known_hits: Vec<(String, String)>,
    pub violations: Vec<PureViolation>,
}

pub fn run(_prop: &str, _tier: &str) -> Option<PureResult> {
    None
}

pub fn replay(_v: &Value) -> i32 {
    eprintln!("no grid check yet");
    2
}
