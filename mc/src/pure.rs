//! Engine E, pure part: exhaustive enumeration of finite input grids against reference models.
//! These run in the checker process itself (no scheduler; hooks ignore unregistered threads).

use std::collections::hash_map::DefaultHasher;
use std::collections::HashSet;
use std::hash::{Hash, Hasher};
use std::sync::atomic::Ordering::SeqCst;

use circ::verif as cv;
use circ::{AtomicRc, AtomicWeak, Rc, RcObject};
use serde_json::{json, Value};

pub struct PureViolation {
    pub kind: String,
    pub detail: String,
    pub replay: Value,
}

#[derive(Default)]
pub struct PureResult {
    pub evaluations: u64,
    pub distinct: u64,
    pub rule: String,
    pub samples: Vec<Value>,
    pub per_part: Vec<Value>,
    pub exhaustive: bool,
    pub machinery: Vec<String>,
    pub assumptions: Vec<String>,
    pub bounds: Value,
    /// indices (into the known-findings list passed in) of listed findings reproduced
    pub known_hits: Vec<usize>,
    pub violations: Vec<PureViolation>,
}

struct Acc {
    prop: &'static str,
    part: &'static str,
    evals: u64,
    distinct: HashSet<u64>,
    viol: Vec<PureViolation>,
    samples: Vec<Value>,
}

impl Acc {
    fn new(prop: &'static str, part: &'static str) -> Acc {
        if streaming() {
            println!("PART {}", part);
        }
        Acc {
            prop,
            part,
            evals: 0,
            distinct: HashSet::new(),
            viol: vec![],
            samples: vec![],
        }
    }
    fn case(&mut self, key: u64) {
        self.evals += 1;
        self.distinct.insert(key);
    }
    fn sample(&mut self, v: Value) {
        if self.samples.len() < 3 {
            self.samples.push(v);
        }
    }
    fn fail(&mut self, kind: &str, detail: String) {
        if self.viol.len() < 5 {
            if streaming() {
                // the parent must learn about it even if a later case kills this process
                println!("FAIL {}", json!({"part": self.part, "kind": kind, "detail": detail}));
            }
            self.viol.push(PureViolation {
                kind: kind.to_string(),
                detail: detail.clone(),
                replay: json!({"engine": "E", "property": self.prop, "part": self.part, "kind": kind, "detail": detail}),
            });
        }
    }
    fn finish(self, r: &mut PureResult) {
        r.evaluations += self.evals;
        r.distinct += self.distinct.len() as u64;
        r.per_part.push(json!({"id": format!("grid/{}", self.part), "evaluations": self.evals, "distinct_cases": self.distinct.len(), "violations": self.viol.len()}));
        r.samples.extend(self.samples);
        r.violations.extend(self.viol);
    }
}

fn h2(a: u64, b: u64) -> u64 {
    (a ^ b.rotate_left(32)).wrapping_mul(0x9e3779b97f4a7c15) ^ b
}

// ------------------------------------------------------------------------------------ C11

#[repr(align(16))]
#[allow(dead_code)]
struct A16([u8; 16]);
#[repr(align(64))]
#[allow(dead_code)]
struct A64([u8; 64]);

fn tag_grid<T>(acc: &mut Acc, name: &str) {
    use cv::tagged as t;
    let align = t::pointee_align::<T>();
    let lg = align.trailing_zeros();
    let mut addrs: Vec<usize> = vec![0];
    for k in lg..60 {
        addrs.push(1usize << k);
    }
    addrs.push(((1usize << 60) - 1) & !(align - 1));
    for j in lg..60 {
        for k in (j + 1)..60 {
            if (j + k) % 3 == 0 {
                addrs.push((1usize << j) | (1usize << k));
            }
        }
    }
    let mut tags: Vec<usize> = (0..2 * align.max(4)).collect();
    tags.extend([usize::MAX, 1usize << 60, 1usize << 63, (1usize << 60) | 1, !0usize << 3]);
    let stamps: Vec<usize> = (0..41).collect();
    for &a in addrs.iter() {
        for &tg in tags.iter() {
            for &ts in stamps.iter() {
                acc.case(h2(a as u64, h2(tg as u64, (ts as u64) << 8 | align as u64)));
                // compose through the API under test only
                let w0 = t::with_high_tag::<T>(t::with_tag::<T>(a, tg), ts);
                let ctx = || format!("{}: addr={:#x} tag={:#x} stamp={}", name, a, tg, ts);
                if t::tag::<T>(w0) != tg % align {
                    acc.fail("tag-roundtrip", format!("{}: tag() = {:#x}, expected {:#x}", ctx(), t::tag::<T>(w0), tg % align));
                }
                if t::as_raw::<T>(w0) != a {
                    acc.fail("address-corrupted", format!("{}: as_raw() = {:#x}", ctx(), t::as_raw::<T>(w0)));
                }
                if t::high_tag::<T>(w0) != ts % 16 {
                    acc.fail("stamp-roundtrip", format!("{}: high_tag() = {}", ctx(), t::high_tag::<T>(w0)));
                }
                if t::is_null::<T>(w0) != (a == 0) {
                    acc.fail("null-test", format!("{}: is_null() = {}", ctx(), t::is_null::<T>(w0)));
                }
                // the other order of composition gives the same word
                let w1 = t::with_tag::<T>(t::with_high_tag::<T>(a, ts), tg);
                if w1 != w0 {
                    acc.fail("order-dependence", format!("{}: with_tag/with_high_tag do not commute: {:#x} vs {:#x}", ctx(), w0, w1));
                }
                // re-tagging and re-stamping replace, never accumulate
                let w2 = t::with_tag::<T>(w0, tg.wrapping_add(1));
                if t::tag::<T>(w2) != tg.wrapping_add(1) % align || t::as_raw::<T>(w2) != a || t::high_tag::<T>(w2) != ts % 16 {
                    acc.fail("retag", format!("{}: re-tagging changed address or stamp", ctx()));
                }
                let w3 = t::with_high_tag::<T>(w0, ts + 5);
                if t::high_tag::<T>(w3) != (ts + 5) % 16 || t::as_raw::<T>(w3) != a || t::tag::<T>(w3) != tg % align {
                    acc.fail("restamp", format!("{}: re-stamping changed address or tag", ctx()));
                }
                // the stamp is invisible
                if !t::ptr_eq::<T>(w0, w3) || !t::ptr_eq::<T>(w3, w0) {
                    acc.fail("ptr-eq-sees-stamp", format!("{}: ptr_eq distinguishes stamps", ctx()));
                }
                if align > 1 && t::ptr_eq::<T>(w0, w2) {
                    acc.fail("ptr-eq-ignores-tag", format!("{}: ptr_eq ignores a different tag", ctx()));
                }
                if t::fmt_pointer::<T>(w0) != t::fmt_pointer::<T>(t::with_high_tag::<T>(w0, 0))
                    || t::fmt_pointer::<T>(w0) != format!("{:p}", a as *const T)
                    || t::fmt_debug::<T>(w0) != format!("{:p}", a as *const T)
                {
                    acc.fail("format-sees-stamp-or-tag", format!("{}: formatted as {}", ctx(), t::fmt_pointer::<T>(w0)));
                }
            }
        }
    }
    // two different addresses are never ptr_eq, whatever the stamps
    for i in 0..addrs.len().min(40) {
        for j in 0..addrs.len().min(40) {
            if i != j {
                acc.case(h2(addrs[i] as u64 ^ 0xabc, addrs[j] as u64));
                let a = t::with_high_tag::<T>(addrs[i], i);
                let b = t::with_high_tag::<T>(addrs[j], j);
                if t::ptr_eq::<T>(a, b) {
                    acc.fail("ptr-eq-different-objects", format!("{}: {:#x} and {:#x} compare equal", name, addrs[i], addrs[j]));
                }
            }
        }
    }
    acc.sample(json!({"type": name, "align": align, "addresses": addrs.len(), "tags": tags.len(), "stamps": stamps.len()}));
}

#[derive(Debug, PartialEq, Eq, PartialOrd, Ord, Hash)]
struct Item {
    v: u32,
}
unsafe impl RcObject for Item {
    fn pop_edges(&mut self, _: &mut Vec<Rc<Self>>) {}
}

#[derive(Debug, PartialEq, PartialOrd)]
struct PItem {
    v: f64,
}
unsafe impl RcObject for PItem {
    fn pop_edges(&mut self, _: &mut Vec<Rc<Self>>) {}
}

#[repr(align(64))]
#[derive(Debug, PartialEq, Eq, PartialOrd, Ord, Hash)]
struct Big {
    v: u32,
}
unsafe impl RcObject for Big {
    fn pop_edges(&mut self, _: &mut Vec<Rc<Self>>) {}
}

/// The same object stored at 16 consecutive epochs and loaded back: every user-visible
/// observation agrees across stamps and tags.
fn tag_public<T: RcObject + std::fmt::Debug + PartialEq + 'static>(acc: &mut Acc, name: &str, mk: fn(u32) -> T) {
    let max_tag = cv::tagged::counted_align::<T>();
    if max_tag < cv::tagged::pointee_align::<T>() {
        acc.fail("tag-bits", format!("{}: fewer tag bits than the payload's alignment provides", name));
    }
    let cell: AtomicRc<T> = AtomicRc::null();
    let wcell: AtomicWeak<T> = AtomicWeak::null();
    let obj = Rc::new(mk(7));
    let base_fmt = format!("{:p}", obj);
    let mut stamps_seen = HashSet::new();
    for round in 0..16 {
        for tag in [0usize, 1, max_tag - 1, max_tag, max_tag + 1, usize::MAX] {
            acc.case(h2(round as u64, h2(tag as u64, max_tag as u64)));
            let g = circ::cs();
            let want = tag % max_tag;
            let tagged = obj.clone().with_tag(tag);
            if tagged.tag() != want || !tagged.ptr_eq(&obj.clone().with_tag(want)) || format!("{:p}", tagged) != base_fmt {
                acc.fail("rc-tag", format!("{}: Rc::with_tag({:#x}) -> tag {:#x}, fmt {:p}", name, tag, tagged.tag(), tagged));
            }
            cell.store(tagged, SeqCst, &g);
            let s = cell.load(SeqCst, &g);
            stamps_seen.insert(cv::word_stamp(cv::snapshot_word(&s)));
            let ok = !s.is_null()
                && s.tag() == want
                && s.as_ref() == obj.as_ref()
                && format!("{:p}", s) == base_fmt
                && s.ptr_eq(obj.snapshot(&g).with_tag(want))
                && (want == 0) == s.ptr_eq(obj.snapshot(&g));
            if !ok {
                acc.fail("snapshot-sees-stamp", format!("{}: loaded Snapshot (stamp {}) differs from the stored pointer: tag {:#x} fmt {:p}", name, cv::word_stamp(cv::snapshot_word(&s)), s.tag(), s));
            }
            // every way of dereferencing lands on the same address, stamp or not
            let shared = s.as_ref().map(|r| r as *const T as usize);
            let via_snapshot_mut = unsafe { s.as_mut() }.map(|r| r as *mut T as usize);
            let via_snapshot_deref = unsafe { s.deref() } as *const T as usize;
            let via_snapshot_deref_mut = unsafe { s.deref_mut() } as *mut T as usize;
            let mut rc = s.counted();
            let via_rc = rc.as_ref().map(|r| r as *const T as usize);
            let via_rc_mut = unsafe { rc.as_mut() }.map(|r| r as *mut T as usize);
            let via_rc_deref_mut = unsafe { rc.deref_mut() } as *mut T as usize;
            let base_addr = obj.as_ref().map(|r| r as *const T as usize);
            if shared != base_addr
                || via_snapshot_mut != base_addr
                || Some(via_snapshot_deref) != base_addr
                || Some(via_snapshot_deref_mut) != base_addr
                || via_rc != base_addr
                || via_rc_mut != base_addr
                || Some(via_rc_deref_mut) != base_addr
            {
                acc.fail(
                    "deref-sees-stamp-or-tag",
                    format!(
                        "{}: with stamp {} and tag {:#x} the dereference paths give {:x?} {:x?} {:#x} {:#x} {:x?} {:x?} {:#x}, the object is at {:x?}",
                        name, cv::word_stamp(cv::snapshot_word(&s)), want, shared, via_snapshot_mut, via_snapshot_deref, via_snapshot_deref_mut, via_rc, via_rc_mut, via_rc_deref_mut, base_addr
                    ),
                );
            }
            if rc.is_null() || rc.tag() != want || rc.as_ref() != obj.as_ref() || format!("{:p}", rc) != base_fmt || !rc.ptr_eq(&obj.clone().with_tag(want)) {
                acc.fail("rc-sees-stamp", format!("{}: counted Rc differs from the stored pointer", name));
            }
            let wk = rc.downgrade();
            if wk.is_null() || wk.tag() != want || format!("{:p}", wk) != base_fmt || !wk.ptr_eq(&obj.downgrade().with_tag(want)) {
                acc.fail("weak-sees-stamp", format!("{}: Weak made from a stamped Rc differs: tag {:#x} fmt {:p}", name, wk.tag(), wk));
            }
            wcell.store(wk, SeqCst, &g);
            let ws = wcell.load(SeqCst, &g);
            if ws.is_null() || ws.tag() != want || format!("{:p}", ws) != base_fmt || !ws.ptr_eq(obj.snapshot(&g).downgrade().with_tag(want)) {
                acc.fail("weak-snapshot-sees-stamp", format!("{}: WeakSnapshot differs: tag {:#x} fmt {:p}", name, ws.tag(), ws));
            }
            match ws.upgrade() {
                Some(up) if up.as_ref() == obj.as_ref() && up.tag() == want => {}
                _ => acc.fail("weak-snapshot-upgrade", format!("{}: upgrade of a stamped, tagged WeakSnapshot failed or changed the tag", name)),
            }
            // the links themselves and the weak pointer kinds format as the bare address too
            // (their Debug output is the pointer), whatever stamp the link carries
            let fmts = [
                ("AtomicRc {:p}", format!("{:p}", cell)),
                ("AtomicRc {:?}", format!("{:?}", cell)),
                ("AtomicWeak {:p}", format!("{:p}", wcell)),
                ("AtomicWeak {:?}", format!("{:?}", wcell)),
                ("Weak {:?}", format!("{:?}", wcell.load(SeqCst, &g).counted())),
                ("WeakSnapshot {:?}", format!("{:?}", ws)),
            ];
            for (what, got) in fmts.iter() {
                if *got != base_fmt {
                    acc.fail("format-sees-stamp-or-tag", format!("{}: {} of a pointer with stamp {} and tag {:#x} prints {}, the object is at {}", name, what, cv::word_stamp(cv::snapshot_word(&s)), want, got, base_fmt));
                }
            }
            // Debug of the strong kinds shows the referent
            let want_dbg = format!("RcObject({:?})", obj.as_ref().unwrap());
            #[allow(clippy::clone_on_copy)]
            let (s2, ws2) = (s.clone(), ws.clone());
            if format!("{:?}", s) != want_dbg || format!("{:?}", rc) != want_dbg || !s2.ptr_eq(s) || !ws2.ptr_eq(ws) {
                acc.fail("debug-or-clone", format!("{}: Debug of a stamped Snapshot/Rc is {:?} / {:?}, expected {}; or an explicit clone of a snapshot is another pointer", name, s, rc, want_dbg));
            }
            // tagged / stamped null is null
            let n: Rc<T> = Rc::null().with_tag(tag);
            cell.store(n, SeqCst, &g);
            let ns = cell.load(SeqCst, &g);
            if !ns.is_null() || ns.as_ref().is_some() || ns.tag() != want {
                acc.fail("tagged-null", format!("{}: tagged null loaded as non-null or lost its tag", name));
            }
            let mut nrc: Rc<T> = Rc::null().with_tag(tag);
            let nwk = nrc.downgrade();
            let null_checks = [
                ("Snapshot::as_mut", unsafe { ns.as_mut() }.is_none()),
                ("Rc::as_mut", unsafe { nrc.as_mut() }.is_none()),
                ("Rc::downgrade", nwk.is_null()),
                // (upgrading a null pointer yields the null pointer, not None: C05)
                ("Weak::upgrade", nwk.upgrade().map(|r| r.is_null() && r.tag() == want) == Some(true)),
                ("Weak::snapshot", nwk.snapshot(&g).is_null()),
                ("Snapshot::downgrade", ns.downgrade().is_null()),
                ("Snapshot::counted", ns.counted().is_null()),
                ("Snapshot Debug", format!("{:?}", ns) == "Null"),
                ("Rc Debug", format!("{:?}", nrc) == "Null"),
                ("Snapshot Pointer", format!("{:p}", ns) == format!("{:p}", std::ptr::null::<T>())),
            ];
            let failed: Vec<&str> = null_checks.iter().filter(|c| !c.1).map(|c| c.0).collect();
            let null_ok = failed.is_empty();
            if !null_ok {
                acc.fail("tagged-null", format!("{}: a null with tag {:#x} is not null (or does not print as null) through {:?}", name, tag, failed));
            }
            drop(rc);
        }
        // next epoch
        {
            let g = circ::cs();
            g.flush();
        }
    }
    {
        // the Default of every pointer kind is the untagged null
        let g = circ::cs();
        let (dc, dwc): (AtomicRc<T>, AtomicWeak<T>) = (Default::default(), Default::default());
        let (dr, ds, dws): (Rc<T>, circ::Snapshot<T>, circ::WeakSnapshot<T>) = (Default::default(), Default::default(), Default::default());
        let ok = dc.load(SeqCst, &g).is_null()
            && dc.load(SeqCst, &g).tag() == 0
            && dwc.load(SeqCst, &g).is_null()
            && dwc.load(SeqCst, &g).tag() == 0
            && dr.is_null()
            && dr.tag() == 0
            && ds.is_null()
            && ds.tag() == 0
            && dws.is_null()
            && dws.tag() == 0
            && dws.upgrade().map(|s| s.is_null()) == Some(true);
        acc.case(h2(0xdef, max_tag as u64));
        if !ok {
            acc.fail("default-not-null", format!("{}: the Default of a pointer kind is not the untagged null", name));
        }
    }
    if stamps_seen.len() < 8 {
        acc.fail("harness-epochs", format!("{}: only {} distinct stamps exercised", name, stamps_seen.len()));
    }
    let g = circ::cs();
    cell.store(Rc::null(), SeqCst, &g);
    wcell.store(circ::Weak::null(), SeqCst, &g);
    acc.sample(json!({"type": name, "counted_align": max_tag, "distinct_stamps": stamps_seen.len()}));
}

fn c11() -> PureResult {
    let mut r = PureResult {
        exhaustive: true,
        rule: "every (address, tag, timestamp) of the grid for pointee alignments 1,2,4,8,16,64 through the real Tagged operations (round trips, invariance under the timestamp, null-ness, ptr_eq, formatting); plus real objects of alignment 8 and 64 stored at 16 consecutive epochs with 6 tags and observed through Rc, Snapshot, Weak and WeakSnapshot; distinct = distinct grid points".into(),
        bounds: json!({"addresses": "0, 2^k (k < 60), all-ones below bit 60, pairs 2^j|2^k", "tags": "0..2*align, usize::MAX, 2^60, 2^63, ...", "timestamps": "0..=40", "alignments": [1, 2, 4, 8, 16, 64]}),
        assumptions: vec!["the masks are bitwise, so the bit basis plus pairs is the stated bound, not all 2^60 addresses".into()],
        ..Default::default()
    };
    let mut a = Acc::new("C11", "tagged");
    tag_grid::<u8>(&mut a, "u8");
    tag_grid::<u16>(&mut a, "u16");
    tag_grid::<u32>(&mut a, "u32");
    tag_grid::<u64>(&mut a, "u64");
    tag_grid::<A16>(&mut a, "align16");
    tag_grid::<A64>(&mut a, "align64");
    a.finish(&mut r);
    let mut b = Acc::new("C11", "public-api");
    tag_public::<Item>(&mut b, "Item(align 4, block align 8)", |v| Item { v });
    tag_public::<Big>(&mut b, "Big(align 64)", |v| Big { v });
    b.finish(&mut r);
    r
}

// ------------------------------------------------------------------------------------ C12

fn c12() -> PureResult {
    use cv::state as st;
    let mut r = PureResult {
        exhaustive: true,
        rule: "(a) every combination of boundary field values x every updater: the updated field matches an unbounded-integer reference and the other fields are unchanged; (b) the modular age test for current epochs {0..200, 2^16+-8, 2^32+-8, 2^40+0..15, 2^62+-8, 2^63-25..2^63-1} x true ages -2..64: never 'old' below age 3, always 'old' for ages 3..13; (c) the stamp merge over all age triples -2..40: merged decision old implies every input at least 3 old, and inside the window the merged stamp is the youngest".into(),
        bounds: json!({"field_values": "0,1,2,2^28,max-1,max", "epochs": "0..200, 2^16+-8, 2^32+-8, 2^40+0..15, 2^62+-8, 2^63-25..2^63-1", "ages": "-2..64"}),
        ..Default::default()
    };
    // (a)
    let mut a = Acc::new("C12", "fields");
    let smax = (1u64 << st::STRONG_BITS) - 1;
    let wmax = (1u64 << st::WEAK_BITS) - 1;
    let svals = [0u64, 1, 2, 1 << 28, smax - 1, smax];
    let wvals = [0u64, 1, 2, 1 << 28, wmax - 1, wmax];
    if st::STRONG_BITS + st::WEAK_BITS + st::EPOCH_BITS + 2 != 64 {
        a.fail("layout", format!("field widths {}+{}+{}+2 != 64", st::STRONG_BITS, st::WEAK_BITS, st::EPOCH_BITS));
    }
    let fields = |w: u64| (st::strong(w) as u64, st::weak(w) as u64, st::destructed(w), st::weaked(w), st::epoch(w) as u64);
    for &s in svals.iter() {
        for &wk in wvals.iter() {
            for d in [false, true] {
                for we in [false, true] {
                    for e in 0..16u64 {
                        // build through the API: from zero, one field at a time
                        let mut w = 0u64;
                        w = st::add_strong(w, s as u32);
                        w = st::add_weak(w, wk as u32);
                        w = st::with_destructed(w, d);
                        w = st::with_weaked(w, we);
                        w = st::with_epoch(w, e as usize);
                        a.case(h2(w, 1));
                        let want = (s, wk, d, we, e);
                        if fields(w) != want {
                            a.fail("field-build", format!("built {:?}, read back {:?}", want, fields(w)));
                            continue;
                        }
                        // updaters
                        for ne in (0..64usize).chain([usize::MAX, 1 << 16, (1 << 32) + 5]) {
                            a.case(h2(w, 2 + ne as u64));
                            let g = fields(st::with_epoch(w, ne));
                            if g != (s, wk, d, we, (ne % 16) as u64) {
                                a.fail("with-epoch", format!("with_epoch({}) on {:?} gave {:?}", ne, want, g));
                            }
                        }
                        for k in [0u64, 1, 2, smax - s] {
                            if s + k <= smax {
                                a.case(h2(w, 100 + k));
                                let g = fields(st::add_strong(w, k as u32));
                                if g != (s + k, wk, d, we, e) {
                                    a.fail("add-strong", format!("add_strong({}) on {:?} gave {:?}", k, want, g));
                                }
                            }
                        }
                        for k in [0u64, 1, 2, s] {
                            if k <= s {
                                a.case(h2(w, 200 + k));
                                let g = fields(st::sub_strong(w, k as u32));
                                if g != (s - k, wk, d, we, e) {
                                    a.fail("sub-strong", format!("sub_strong({}) on {:?} gave {:?}", k, want, g));
                                }
                            }
                        }
                        for k in [0u64, 1, 2, wmax - wk] {
                            if wk + k <= wmax {
                                a.case(h2(w, 300 + k));
                                let g = fields(st::add_weak(w, k as u32));
                                if g != (s, wk + k, d, we, e) {
                                    a.fail("add-weak", format!("add_weak({}) on {:?} gave {:?}", k, want, g));
                                }
                            }
                        }
                        // the raw fetch_add / fetch_sub units used on the word
                        if s < smax && fields(w.wrapping_add(st::strong_unit())) != (s + 1, wk, d, we, e) {
                            a.fail("strong-unit", format!("fetch_add(COUNT) on {:?} gave {:?}", want, fields(w.wrapping_add(st::strong_unit()))));
                        }
                        if wk > 0 && fields(w.wrapping_sub(st::weak_unit())) != (s, wk - 1, d, we, e) {
                            a.fail("weak-unit", format!("fetch_sub(WEAK_COUNT) on {:?} gave {:?}", want, fields(w.wrapping_sub(st::weak_unit()))));
                        }
                        for f in [false, true] {
                            if fields(st::with_destructed(w, f)) != (s, wk, f, we, e) {
                                a.fail("with-destructed", format!("with_destructed({}) on {:?}", f, want));
                            }
                            if fields(st::with_weaked(w, f)) != (s, wk, d, f, e) {
                                a.fail("with-weaked", format!("with_weaked({}) on {:?}", f, want));
                            }
                        }
                    }
                }
            }
        }
    }
    a.sample(json!({"strong_bits": st::STRONG_BITS, "weak_bits": st::WEAK_BITS, "epoch_bits": st::EPOCH_BITS}));
    a.finish(&mut r);
    // (b)
    let mut b = Acc::new("C12", "age-test");
    let mut epochs: Vec<usize> = (0..=200).collect();
    for base in [1usize << 16, 1 << 32] {
        for d in 0..=16 {
            epochs.push(base - 8 + d);
        }
    }
    for d in 0..16 {
        epochs.push((1usize << 40) + d);
    }
    // the largest epochs there are (the counter has 63 bits)
    for d in 0..=16 {
        epochs.push((1usize << 62) - 8 + d);
    }
    for d in 0..=24 {
        epochs.push((1usize << 63) - 1 - d);
    }
    let mut beyond_old = 0u64;
    let mut beyond_recent = 0u64;
    for &cur in epochs.iter() {
        for age in -2i64..=64 {
            let Some(stamp_epoch) = (cur as i64).checked_sub(age) else {
                continue;
            };
            if stamp_epoch < 0 {
                continue;
            }
            b.case(h2(cur as u64, (age + 2) as u64));
            let stamp = (stamp_epoch as usize % 16) as u32;
            let old = st::reclaim_decision(stamp, cur);
            if age < 3 && old {
                b.fail("classified-old-too-early", format!("epoch {}: a stamp of true age {} is classified old enough", cur, age));
            }
            if (3..=13).contains(&age) && !old {
                b.fail("window-stamp-classified-recent", format!("epoch {}: a stamp of true age {} (inside the window) is classified too recent", cur, age));
            }
            if age > 13 {
                if old {
                    beyond_old += 1
                } else {
                    beyond_recent += 1
                }
            }
        }
    }
    b.sample(json!({"epochs": epochs.len(), "ages_beyond_window_classified_old": beyond_old, "ages_beyond_window_classified_recent": beyond_recent}));
    b.finish(&mut r);
    // (c)
    let mut c = Acc::new("C12", "stamp-merge");
    for &cur in [5usize, 16, 17, 30, 31, 200, (1 << 16) + 3].iter() {
        for a1 in -1i64..=40 {
            for a2 in -1i64..=40 {
                for a3 in -1i64..=40 {
                    let ages = [a1, a2, a3];
                    if ages.iter().any(|&a| cur as i64 - a < 0) {
                        continue;
                    }
                    c.case(h2(cur as u64, ((a1 + 1) * 1764 + (a2 + 1) * 42 + a3 + 1) as u64));
                    let stamps: Vec<isize> = ages.iter().map(|&a| ((cur as i64 - a) % 16) as isize).collect();
                    let merged = st::merge_stamps(cur, &stamps);
                    let old = st::reclaim_decision(merged as u32, cur);
                    let young = *ages.iter().min().unwrap();
                    if old && young < 3 {
                        c.fail("merge-loses-young-stamp", format!("epoch {}: ages {:?} merged to stamp {} which is classified old", cur, ages, merged));
                    }
                    if ages.iter().all(|a| (-1..=13).contains(a)) {
                        let want = ((cur as i64 - young) % 16) as isize;
                        if merged != want {
                            c.fail("merge-not-youngest", format!("epoch {}: ages {:?} merged to stamp {}, the youngest is {}", cur, ages, merged, want));
                        }
                    }
                }
            }
        }
    }
    c.sample(json!({"triples_per_epoch": 42 * 42 * 42}));
    c.finish(&mut r);
    r
}

// ------------------------------------------------------------------------------------ C19

fn hash_of<T: Hash>(t: &T) -> u64 {
    let mut h = DefaultHasher::new();
    t.hash(&mut h);
    h.finish()
}

fn c19() -> PureResult {
    let mut r = PureResult {
        exhaustive: true,
        rule: "all pairs and triples of 9 pointer kinds {null, null|tag, a, a|tag, a under another stamp, b (equal contents), c (smaller), d (larger), a again} for Rc and for Snapshot: ==, partial_cmp, cmp and hash equal those of Option<&T>; Eq/Ord laws; ptr_eq = same object and same tag regardless of stamp; the pair relations again for a partially ordered, non-reflexive referent (NaN)".into(),
        bounds: json!({"kinds": 9, "pairs": 81, "triples": 729, "partially_ordered_kinds": 9}),
        ..Default::default()
    };
    let mut acc = Acc::new("C19", "eq-ord-hash");
    // objects
    let a = Rc::new(Item { v: 5 });
    let b = Rc::new(Item { v: 5 });
    let c = Rc::new(Item { v: 3 });
    let d = Rc::new(Item { v: 9 });
    // a stamped at another epoch: travels through a link
    let cell: AtomicRc<Item> = AtomicRc::null();
    for _ in 0..3 {
        let g = circ::cs();
        g.flush();
    }
    let a_stamped = {
        let g = circ::cs();
        cell.store(a.clone(), SeqCst, &g);
        drop(g);
        cell.swap(Rc::null(), SeqCst)
    };
    if cv::word_stamp(cv::rc_word(&a_stamped)) == cv::word_stamp(cv::rc_word(&a)) {
        acc.fail("harness-stamp", "could not produce a differently stamped pointer".into());
    }
    // (pointer, referent identity, tag, referent)
    let ptrs: Vec<(Rc<Item>, usize, usize)> = vec![
        (Rc::null(), 0, 0),
        (Rc::null().with_tag(1), 0, 1),
        (a.clone(), 1, 0),
        (a.clone().with_tag(1), 1, 1),
        (a_stamped, 1, 0),
        (b.clone(), 2, 0),
        (c.clone(), 3, 0),
        (d.clone(), 4, 0),
        (a.clone(), 1, 0),
    ];
    let g = circ::cs();
    let snaps: Vec<circ::Snapshot<Item>> = ptrs.iter().map(|p| p.0.snapshot(&g)).collect();
    let n = ptrs.len();
    for i in 0..n {
        for j in 0..n {
            acc.case(h2(i as u64, j as u64));
            let (x, y) = (&ptrs[i].0, &ptrs[j].0);
            let (ox, oy) = (x.as_ref(), y.as_ref());
            let ctx = || format!("kinds {} and {}", i, j);
            if (x == y) != (ox == oy) {
                acc.fail("rc-eq", format!("{}: Rc == gives {}, Option<&T> gives {}", ctx(), x == y, ox == oy));
            }
            if x.partial_cmp(y) != ox.partial_cmp(&oy) || x.cmp(y) != ox.cmp(&oy) {
                acc.fail("rc-ord", format!("{}: Rc ordering {:?}, Option<&T> ordering {:?}", ctx(), x.cmp(y), ox.cmp(&oy)));
            }
            if hash_of(x) != hash_of(&ox) {
                acc.fail("rc-hash", format!("{}: Rc hash differs from Option<&T> hash", ctx()));
            }
            if x == y && hash_of(x) != hash_of(y) {
                acc.fail("rc-hash-law", format!("{}: equal pointers hash differently", ctx()));
            }
            let same = ptrs[i].1 == ptrs[j].1 && ptrs[i].2 == ptrs[j].2;
            if x.ptr_eq(y) != same {
                acc.fail("rc-ptr-eq", format!("{}: ptr_eq = {}, identity+tag says {}", ctx(), x.ptr_eq(y), same));
            }
            if (x == y) != (y == x) || x.cmp(y) != y.cmp(x).reverse() {
                acc.fail("rc-symmetry", format!("{}: == not symmetric or cmp not antisymmetric", ctx()));
            }
            let (sx, sy) = (snaps[i], snaps[j]);
            if (sx == sy) != (ox == oy) || sx.partial_cmp(&sy) != ox.partial_cmp(&oy) || sx.cmp(&sy) != ox.cmp(&oy) || hash_of(&sx) != hash_of(&ox) {
                acc.fail("snapshot-eq-ord-hash", format!("{}: Snapshot relations differ from Option<&T>", ctx()));
            }
            if sx.ptr_eq(sy) != same {
                acc.fail("snapshot-ptr-eq", format!("{}: Snapshot::ptr_eq = {}, identity+tag says {}", ctx(), sx.ptr_eq(sy), same));
            }
            // null is distinct and smallest
            if ox.is_none() && oy.is_some() && !(x < y) {
                acc.fail("null-not-smallest", format!("{}: null is not below a non-null pointer", ctx()));
            }
            for k in 0..n {
                acc.case(h2(i as u64, (j * 16 + k) as u64 + 1000));
                let z = &ptrs[k].0;
                if x == y && y == z && x != z {
                    acc.fail("rc-transitivity", format!("kinds {} {} {}: == not transitive", i, j, k));
                }
                if x <= y && y <= z && !(x <= z) {
                    acc.fail("rc-transitivity", format!("kinds {} {} {}: <= not transitive", i, j, k));
                }
                let sz = snaps[k];
                if sx <= sy && sy <= sz && !(sx <= sz) {
                    acc.fail("snapshot-transitivity", format!("kinds {} {} {}: <= not transitive", i, j, k));
                }
            }
        }
        if ptrs[i].0 != ptrs[i].0 || ptrs[i].0.cmp(&ptrs[i].0) != std::cmp::Ordering::Equal {
            acc.fail("rc-reflexivity", format!("kind {}: not equal to itself", i));
        }
    }
    // a referent that is only partially ordered and not equal to itself (NaN): identity must not
    // leak into ==, partial_cmp, <, <=
    {
        let nan = Rc::new(PItem { v: f64::NAN });
        let nan2 = Rc::new(PItem { v: f64::NAN });
        let one = Rc::new(PItem { v: 1.0 });
        let two = Rc::new(PItem { v: 2.0 });
        let pcell: AtomicRc<PItem> = AtomicRc::null();
        let nan_stamped = {
            let g2 = circ::cs();
            pcell.store(nan.clone(), SeqCst, &g2);
            drop(g2);
            pcell.swap(Rc::null(), SeqCst)
        };
        let pp: Vec<Rc<PItem>> = vec![Rc::null(), nan.clone(), nan.clone(), nan.clone().with_tag(1), nan_stamped, nan2.clone(), one.clone(), two.clone(), one.clone()];
        let g2 = circ::cs();
        let ps: Vec<circ::Snapshot<PItem>> = pp.iter().map(|p| p.snapshot(&g2)).collect();
        for i in 0..pp.len() {
            for j in 0..pp.len() {
                acc.case(h2(i as u64 + 5000, j as u64));
                let (x, y) = (&pp[i], &pp[j]);
                let (ox, oy) = (x.as_ref(), y.as_ref());
                if (x == y) != (ox == oy) || x.partial_cmp(y) != ox.partial_cmp(&oy) || (x < y) != (ox < oy) || (x <= y) != (ox <= oy) || (x >= y) != (ox >= oy) {
                    acc.fail("rc-partial-order", format!("partially ordered referent, kinds {} and {}: Rc gives == {} / {:?}, Option<&T> gives == {} / {:?}", i, j, x == y, x.partial_cmp(y), ox == oy, ox.partial_cmp(&oy)));
                }
                let (sx, sy) = (ps[i], ps[j]);
                if (sx == sy) != (ox == oy) || sx.partial_cmp(&sy) != ox.partial_cmp(&oy) || (sx <= sy) != (ox <= oy) {
                    acc.fail("snapshot-partial-order", format!("partially ordered referent, kinds {} and {}: Snapshot relations differ from Option<&T>", i, j));
                }
            }
        }
        drop(g2);
    }
    acc.sample(json!({"kinds": ["null", "null|1", "a", "a|1", "a (other stamp)", "b == a by contents", "c < a", "d > a", "a"], "stamp_a": cv::word_stamp(cv::rc_word(&ptrs[2].0)), "stamp_a2": cv::word_stamp(cv::rc_word(&ptrs[4].0))}));
    acc.finish(&mut r);
    drop(g);
    r
}

pub fn run(prop: &str, tier: &str, known: &[crate::runner::Known]) -> Option<PureResult> {
    match prop {
        "C07" | "C20" => Some(c07(prop, tier, known)),
        "C11" | "C12" | "C19" => Some(run_isolated(prop)),
        _ => None,
    }
}

fn run_inline(prop: &str) -> PureResult {
    match prop {
        "C11" => c11(),
        "C12" => c12(),
        _ => c19(),
    }
}

static STREAMING: std::sync::atomic::AtomicBool = std::sync::atomic::AtomicBool::new(false);
fn streaming() -> bool {
    STREAMING.load(std::sync::atomic::Ordering::Relaxed)
}

/// `circ-mc purechild <prop>`: runs the grid, reporting every failure at once and the totals at
/// the end.
pub fn child(prop: &str) -> i32 {
    STREAMING.store(true, std::sync::atomic::Ordering::Relaxed);
    let r = run_inline(prop);
    println!(
        "RESULT {}",
        json!({
            "evaluations": r.evaluations, "distinct": r.distinct, "rule": r.rule, "samples": r.samples,
            "per_part": r.per_part, "exhaustive": r.exhaustive, "machinery": r.machinery,
            "assumptions": r.assumptions, "bounds": r.bounds,
            "violations": r.violations.iter().map(|v| json!({"kind": v.kind, "detail": v.detail, "replay": v.replay})).collect::<Vec<_>>(),
        })
    );
    0
}

/// The grids call the real pointer operations on real objects: a change that corrupts an address
/// makes the process die. That is an observation about the library, so the grid runs in a child.
fn run_isolated(prop: &str) -> PureResult {
    let prop_s: &'static str = match prop {
        "C11" => "C11",
        "C12" => "C12",
        _ => "C19",
    };
    let out = std::process::Command::new(std::env::current_exe().unwrap()).args(["purechild", prop]).output();
    let out = match out {
        Ok(o) => o,
        Err(e) => {
            return PureResult {
                machinery: vec![format!("could not start the grid process: {}", e)],
                ..Default::default()
            }
        }
    };
    let text = String::from_utf8_lossy(&out.stdout);
    let strs = |v: &Value| v.as_array().map(|a| a.iter().filter_map(|x| x.as_str().map(String::from)).collect::<Vec<_>>()).unwrap_or_default();
    if let Some(l) = text.lines().find_map(|l| l.strip_prefix("RESULT ")) {
        if let Ok(v) = serde_json::from_str::<Value>(l) {
            return PureResult {
                evaluations: v["evaluations"].as_u64().unwrap_or(0),
                distinct: v["distinct"].as_u64().unwrap_or(0),
                rule: v["rule"].as_str().unwrap_or("").to_string(),
                samples: v["samples"].as_array().cloned().unwrap_or_default(),
                per_part: v["per_part"].as_array().cloned().unwrap_or_default(),
                exhaustive: v["exhaustive"].as_bool().unwrap_or(false),
                machinery: strs(&v["machinery"]),
                assumptions: strs(&v["assumptions"]),
                bounds: v["bounds"].clone(),
                known_hits: vec![],
                violations: v["violations"]
                    .as_array()
                    .map(|a| {
                        a.iter()
                            .map(|x| PureViolation {
                                kind: x["kind"].as_str().unwrap_or("").to_string(),
                                detail: x["detail"].as_str().unwrap_or("").to_string(),
                                replay: x["replay"].clone(),
                            })
                            .collect()
                    })
                    .unwrap_or_default(),
            };
        }
    }
    // no totals: the process died in the middle of a part
    let mut r = PureResult {
        rule: "the grid process died before finishing; only the failures it reported until then are listed".into(),
        ..Default::default()
    };
    let mut part = "start".to_string();
    for l in text.lines() {
        if let Some(p) = l.strip_prefix("PART ") {
            part = p.to_string();
        } else if let Some(f) = l.strip_prefix("FAIL ") {
            if let Ok(v) = serde_json::from_str::<Value>(f) {
                let (kind, detail) = (v["kind"].as_str().unwrap_or("").to_string(), v["detail"].as_str().unwrap_or("").to_string());
                r.violations.push(PureViolation {
                    replay: json!({"engine": "E", "property": prop_s, "part": v["part"], "kind": kind, "detail": detail}),
                    kind,
                    detail,
                });
            }
        }
    }
    let detail = format!("the process running the grid died ({}) in part '{}'", out.status, part);
    r.violations.push(PureViolation {
        kind: "process-death".into(),
        replay: json!({"engine": "E", "property": prop_s, "part": part, "kind": "process-death", "detail": detail}),
        detail,
    });
    r
}

// ------------------------------------------------------------------------------------ C07

/// The grid of child processes. For C07: every shape, size, stack and context. For C20: the part
/// of it that is about thread tear-down at scale - the structures whose every release is a
/// library call of its own (fan-out, pool), released from a thread-local destructor after the
/// thread's participant handle is gone.
fn c07(prop: &str, tier: &str, known: &[crate::runner::Known]) -> PureResult {
    use std::sync::{Arc, Mutex};
    let quick = tier == "quick";
    let prop_s: &'static str = if prop == "C20" { "C20" } else { "C07" };
    let ns: Vec<usize> = if quick {
        vec![1000, 1023, 1025, 10_000, 100_000]
    } else {
        vec![1000, 1023, 1024, 1025, 2049, 10_000, 100_000, 1_000_000, 2_000_000]
    };
    let stacks: Vec<usize> = vec![0, 2048, 1024, 512, 256, 128, 64];
    let mut cases = vec![];
    for shape in 0..crate::c07::SHAPES.len() {
        // the fan-out shapes also at a width at which one traversal of the participant registry
        // meets a few hundred thousand retired participants (finding #11)
        let fan_ns: Vec<usize> = if quick { vec![300_000] } else { vec![300_000, 500_000] };
        for &n in ns.iter().chain(fan_ns.iter().filter(|_| shape >= 5)) {
            for &st in stacks.iter() {
                for ctx in 0..2 {
                    cases.push((shape, n, st, ctx));
                }
            }
        }
    }
    // contended variant (chain only): weak-pointer traffic collides with the cascade on every 500th node
    for &n in ns.iter().filter(|&&n| n >= 10_000 && n <= 1_000_000) {
        for &st in [0usize, 2048, 512].iter() {
            cases.push((0, n, st, 2));
        }
    }
    if prop_s == "C20" {
        cases.clear();
        let c20_ns: Vec<usize> = if quick { vec![10_000, 300_000] } else { vec![10_000, 300_000, 1_000_000] };
        for shape in [5usize, 7] {
            for &n in c20_ns.iter() {
                for &st in [0usize, 2048, 512, 256].iter() {
                    cases.push((shape, n, st, 1));
                }
            }
        }
    }
    let total = cases.len();
    let queue = Arc::new(Mutex::new(cases));
    let results: Arc<Mutex<Vec<((usize, usize, usize, usize), Option<i32>, String)>>> = Arc::new(Mutex::new(vec![]));
    let mut hs = vec![];
    let nthreads = std::thread::available_parallelism().map(|n| n.get()).unwrap_or(4).min(16);
    let budget = Arc::new((Mutex::new(24usize), std::sync::Condvar::new()));
    for _ in 0..nthreads {
        let queue = queue.clone();
        let results = results.clone();
        let budget = budget.clone();
        hs.push(std::thread::spawn(move || loop {
            let c = queue.lock().unwrap().pop();
            let Some(c) = c else { break };
            // memory: in the thread-local-destructor context every release registers a participant
            // of about 2 KiB that lives until it is reclaimed - 5 GiB for n = 2*10^6. One unit per
            // 250 000 nodes (1.3 GiB measured), 24 units in flight at most.
            let weight = (c.1 / 250_000).clamp(1, 24);
            {
                let (m, cv) = &*budget;
                let mut free = m.lock().unwrap();
                while *free < weight {
                    free = cv.wait(free).unwrap();
                }
                *free -= weight;
            }
            let run = || {
                std::process::Command::new(std::env::current_exe().unwrap())
                    .args(["c07case", &c.0.to_string(), &c.1.to_string(), &c.2.to_string(), &c.3.to_string()])
                    .output()
            };
            let mut out = run();
            {
                use std::os::unix::process::ExitStatusExt;
                // killed from outside (SIGKILL: the kernel's out-of-memory killer) says nothing
                // about the library: once more, and then it is a machinery problem
                if matches!(&out, Ok(o) if o.status.signal() == Some(9)) {
                    out = run();
                }
            }
            {
                let (m, cv) = &*budget;
                *m.lock().unwrap() += weight;
                cv.notify_all();
            }
            match out {
                Ok(o) => {
                    use std::os::unix::process::ExitStatusExt;
                    let text = String::from_utf8_lossy(&o.stdout).trim().to_string();
                    let err = String::from_utf8_lossy(&o.stderr);
                    let last = err.lines().last().unwrap_or("").to_string();
                    let code = match o.status.signal() {
                        Some(9) => Some(-98),
                        _ => o.status.code(),
                    };
                    results.lock().unwrap().push((c, code, format!("{} {}", text, last)));
                }
                Err(e) => results.lock().unwrap().push((c, Some(-99), e.to_string())),
            }
        }));
    }
    for h in hs {
        let _ = h.join();
    }
    let mut r = PureResult {
        exhaustive: true,
        rule: "every point of the grid shape {chain, left comb, right comb, balanced tree, spine with leaves, three-level fan-out whose edges are released by destructors instead of pop_edges (default and tight collection knobs: flush every 2nd decrement, 4 closures per bag), pool of n independent nodes} x n x thread stack size x reclaiming context {plain call, thread-local destructor at thread exit}; each case is a child process that builds the structure iteratively, ages the links, drops the head on a thread with that stack and runs rounds; distinct = distinct grid points".into(),
        bounds: json!({"n": ns, "stack_kib": stacks, "contexts": ["call", "tls-destructor", "call with weak-pointer traffic colliding with the cascade (chain, n >= 10^4)"], "profile": "release, feature circ_verif compiled in but no hooks installed"}),
        assumptions: vec!["frame sizes are those of this build (release, hooks compiled in but inactive)".into()],
        ..Default::default()
    };
    if prop_s == "C20" {
        r.rule = "thread tear-down at scale: {three-level fan-out with destructor-released edges, pool of n independent nodes} x n x thread stack size, released from a thread-local destructor that runs after the library's own (every release then registers and retires a temporary participant); each case is a child process; the thread must exit normally and everything must be reclaimed".into();
    }
    let mut acc = Acc::new(prop_s, "stack");
    let res = results.lock().unwrap();
    if res.len() != total {
        r.machinery.push(format!("only {} of {} cases ran", res.len(), total));
    }
    for (c, code, text) in res.iter() {
        acc.case(h2((c.0 * 4 + c.3) as u64, h2(c.1 as u64, c.2 as u64)));
        let desc = format!("shape {} n={} stack={} KiB context={}", crate::c07::SHAPES[c.0], c.1, if c.2 == 0 { "main".to_string() } else { c.2.to_string() }, ["call", "tls-destructor", "call with colliding weak-pointer traffic"][c.3]);
        match code {
            Some(0) => {}
            Some(-99) => r.machinery.push(format!("{}: could not run: {}", desc, text)),
            Some(-98) => r.machinery.push(format!("{}: killed from outside twice (SIGKILL, out of memory?): {}", desc, text)),
            Some(3) => acc.fail("nodes-not-reclaimed", format!("{}: {}", desc, text)),
            Some(5) => r.machinery.push(format!("{}: the collisions did not happen: {}", desc, text)),
            other => {
                // killed by a signal (stack overflow aborts the process) or panicked
                let scen = if c.2 != 0 && c.2 <= 128 { "c07/stack<=128KiB" } else { "c07/stack>128KiB" };
                match known.iter().position(|k| crate::runner::known_match(k, prop_s, scen, "stack-overflow")) {
                    Some(i) => r.known_hits.push(i),
                    None => acc.fail("stack-overflow", format!("{}: child process died ({:?}) {}", desc, other, text)),
                }
            }
        }
    }
    acc.sample(json!({"case": "chain n=100000 stack=256 KiB call", "observation": "child exits 0 after printing DESTRUCTED 100000 of 100000"}));
    acc.finish(&mut r);
    r
}

/// Replay of a grid counterexample: the grid is small, so it is re-enumerated and the recorded
/// case is looked up.
pub fn replay(v: &Value) -> i32 {
    let prop = v["property"].as_str().unwrap_or("");
    let (known, _) = crate::runner::load_known();
    match run(prop, "quick", &known) {
        None => {
            eprintln!("no grid check for {}", prop);
            2
        }
        Some(r) => {
            for x in r.violations.iter() {
                if x.kind == v["kind"].as_str().unwrap_or("") && x.detail == v["detail"].as_str().unwrap_or("") {
                    println!("REPRODUCED property={} kind={} : {}", prop, x.kind, x.detail);
                    return 1;
                }
            }
            if let Some(x) = r.violations.first() {
                println!("the recorded case does not fail any more; another one does: {}: {}", x.kind, x.detail);
                return 1;
            }
            println!("no violation on this tree");
            0
        }
    }
}
