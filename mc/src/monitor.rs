//! Online monitors fed by the hook event stream and by the driver's invocation/response records.
//!
//! All state is touched only by the one thread that currently holds the scheduler's baton (or by
//! the controller between phases), so there is no locking. Monitor code never calls into circ.
//!
//! The shadow sets *under-approximate* what the program owns: an owner is counted from the
//! response of the call that produced it to the invocation of the call that consumes it (for
//! links: from the `LinkWrite` event). Hence a destruct/free event while a shadow set is non-empty
//! is a violation in every reading of the API contract.

use std::cell::UnsafeCell;
use std::collections::HashMap;

use circ::verif::Event;

use crate::sched;

#[derive(Clone, Debug)]
pub struct Violation {
    pub prop: &'static str,
    pub kind: &'static str,
    pub detail: String,
    pub tid: usize,
    pub op: String,
    pub clock: u64,
}

#[derive(Clone, Debug, Default)]
pub struct Obj {
    pub addr: usize,
    pub ord: u32,
    pub node_id: u32,
    pub init_strong: u32,
    // strong owners
    pub held: i32,
    pub cells: i32,
    pub inflight: i32,
    // weak owners
    pub wheld: i32,
    pub wcells: i32,
    pub winflight: i32,
    /// (tid, guard id) of snapshots obtained under a still active guard
    pub holds: Vec<(usize, u32)>,
    pub wholds: Vec<(usize, u32)>,
    pub decided: bool,
    pub decided_at: u64,
    pub decided_depth: i64,
    pub begun: u32,
    pub ended: u32,
    pub pops: u32,
    pub drops: u32,
    pub deallocs: u32,
    pub upgrade_failed: bool,
}

impl Obj {
    pub fn strong_owners(&self) -> i32 {
        self.held + self.cells + self.inflight
    }
    pub fn weak_owners(&self) -> i32 {
        self.wheld + self.wcells + self.winflight
    }
}

#[derive(Clone, Copy, Debug, PartialEq, Eq)]
pub enum CurOp {
    None,
    /// the old content is released by the operation itself
    Store,
    /// the old content is returned to the caller
    SwapLike,
    /// compare_exchange_tag: content object unchanged
    Tag,
}

#[derive(Clone, Debug)]
pub struct OpRec {
    pub tid: usize,
    pub kind: &'static str,
    pub args: [i64; 4],
    pub res: [i64; 4],
    pub inv: u64,
    pub resp: u64,
}

#[derive(Default, Clone, Copy)]
pub struct ThreadMon {
    /// object whose reference is travelling inside the current operation (strong, weak)
    pub inflight: Option<(u32, bool)>,
    /// object taken out of a cell by the current operation and about to be returned
    pub ret_inflight: Option<(u32, bool)>,
    pub destructing: Option<u32>,
}

#[derive(Default, Clone, Debug)]
pub struct DefInfo {
    /// critical-section instances that were active when the closure was deferred
    pub active_at_defer: Vec<u32>,
    pub runs: u32,
    pub by: usize,
    pub ran_at: u64,
}

/// Harness-level view of the epoch collector: critical-section instances (from the response of
/// the outermost pin to the invocation of the matching unpin / reactivate) and deferred closures.
#[derive(Default)]
pub struct EbrMon {
    pub active: [Option<u32>; sched::MAX_THREADS],
    pub depth: [u32; sched::MAX_THREADS],
    pub ended: Vec<bool>,
    pub deferred: Vec<DefInfo>,
    pub list_inserted: HashMap<usize, (u64, u64)>,
    pub list_invoked: std::collections::HashSet<usize>,
    pub list_deleted: HashMap<usize, u64>,
    pub list_finalized: HashMap<usize, u32>,
    /// (participant, announced epoch) of the thread's most recent pin / re-pin
    pub last_pin: [Option<(usize, usize)>; sched::MAX_THREADS],
    /// (participant, announced epoch) the thread's current driver-level critical section began
    /// with; `None` outside critical sections and while the driver reactivates its guard
    pub cs_pin: [Option<(usize, usize)>; sched::MAX_THREADS],
    /// C17: value of the queue element the driver itself is destroying right now
    pub q_dropping: Option<u64>,
    pub q_drops: HashMap<u64, u32>,
}

pub struct Monitor {
    pub ebr: EbrMon,
    pub objs: Vec<Obj>,
    pub by_addr: HashMap<usize, u32>,
    pub by_node: HashMap<u32, u32>,
    /// registered cells: address -> (raw word, weak?)
    pub cells: HashMap<usize, (usize, bool)>,
    pub canon: HashMap<usize, u32>,
    pub canon_next: u32,
    pub clock: u64,
    pub hash: u64,
    pub outcome: u64,
    pub pending: [i64; 2],
    pub cur_op: [CurOp; sched::MAX_THREADS],
    pub tm: [ThreadMon; sched::MAX_THREADS],
    pub cur_desc: [(&'static str, u64); sched::MAX_THREADS],
    pub hist: Vec<OpRec>,
    pub violation: Option<Violation>,
    pub quarantined: Vec<usize>,
    pub quarantine_on: bool,
    pub next_gid: u32,
    pub global_epoch_addr: usize,
    // C14 / C13 state
    pub locals: HashMap<usize, Option<usize>>, // local addr -> Some(pinned epoch)
    pub global_epoch: Option<usize>,
    pub epoch_stores: u64,
    pub events: u64,
    pub trace: Option<Vec<String>>,
    pub notes: Vec<String>,
    pub word_addr: fn(usize) -> usize,
    /// counters for cover goals
    pub cover: HashMap<&'static str, u64>,
    pub check_state_points: bool,
    pub claim: Option<&'static str>,
    /// the property under check: violations of a few *other* properties whose monitors are pure
    /// observers (nothing unsafe follows from going on) are noted and the execution continues,
    /// so that they do not mask the property under check
    pub focus: Option<String>,
    /// value of `events` when `violation` was recorded
    pub violation_event: u64,
    pub foreign: Vec<(&'static str, &'static str)>,
    pub destructs: u64,
    pub last_destruct_epoch: Option<usize>,
    pub max_latency: usize,
}

struct Holder(UnsafeCell<Option<Box<Monitor>>>);
unsafe impl Sync for Holder {}
static MON: Holder = Holder(UnsafeCell::new(None));

#[allow(clippy::mut_from_ref)]
pub fn mon() -> &'static mut Monitor {
    unsafe { (*MON.0.get()).as_mut().expect("monitor not installed") }
}

pub fn try_mon() -> Option<&'static mut Monitor> {
    unsafe { (*MON.0.get()).as_deref_mut() }
}

pub fn install(m: Monitor) {
    unsafe { *MON.0.get() = Some(Box::new(m)) }
}

pub fn take() -> Option<Box<Monitor>> {
    unsafe { (*MON.0.get()).take() }
}

const FNV: u64 = 0x100000001b3;

fn default_word_addr(w: usize) -> usize {
    circ::verif::word_addr::<crate::world::Node>(w)
}

impl Monitor {
    pub fn new(trace: bool) -> Self {
        Monitor {
            ebr: EbrMon::default(),
            objs: Vec::new(),
            by_addr: HashMap::new(),
            by_node: HashMap::new(),
            cells: HashMap::new(),
            canon: HashMap::new(),
            canon_next: 0,
            clock: 0,
            hash: 0xcbf29ce484222325,
            outcome: 0xcbf29ce484222325,
            pending: [0; 2],
            cur_op: [CurOp::None; sched::MAX_THREADS],
            tm: [ThreadMon::default(); sched::MAX_THREADS],
            cur_desc: [("", 0); sched::MAX_THREADS],
            hist: Vec::new(),
            violation: None,
            quarantined: Vec::new(),
            quarantine_on: true,
            next_gid: 1,
            global_epoch_addr: 0,
            locals: HashMap::new(),
            global_epoch: None,
            epoch_stores: 0,
            events: 0,
            trace: if trace { Some(Vec::new()) } else { None },
            notes: Vec::new(),
            word_addr: default_word_addr,
            cover: HashMap::new(),
            check_state_points: true,
            claim: None,
            focus: None,
            foreign: Vec::new(),
            destructs: 0,
            last_destruct_epoch: None,
            violation_event: 0,
            max_latency: 0,
        }
    }

    #[inline]
    pub fn mix(&mut self, v: u64) {
        self.hash = (self.hash ^ v).wrapping_mul(FNV);
    }

    #[inline]
    pub fn mix_outcome(&mut self, v: u64) {
        self.outcome = (self.outcome ^ v).wrapping_mul(FNV);
    }

    pub fn cover(&mut self, key: &'static str) {
        *self.cover.entry(key).or_insert(0) += 1;
    }

    fn canon(&mut self, addr: usize) -> u32 {
        if addr == 0 {
            return 0;
        }
        if let Some(&n) = self.canon.get(&addr) {
            return n;
        }
        self.canon_next += 1;
        let n = self.canon_next;
        self.canon.insert(addr, n);
        n
    }

    pub fn canon_of(&mut self, addr: usize) -> u32 {
        self.canon(addr)
    }

    pub fn log(&mut self, s: impl FnOnce() -> String) {
        if let Some(t) = self.trace.as_mut() {
            let line = format!("[{:>4}] t{} {}", self.clock, tid_str(), s());
            t.push(line);
        }
    }

    pub fn tick(&mut self) -> u64 {
        self.clock += 1;
        self.clock
    }

    pub fn obj_of_word(&self, word: usize) -> Option<u32> {
        let a = (self.word_addr)(word);
        if a == 0 {
            None
        } else {
            self.by_addr.get(&a).copied()
        }
    }

    pub fn violate(&mut self, prop: &'static str, kind: &'static str, detail: String) {
        if let Some(v) = &self.violation {
            // One event can break several properties at once (a block freed while strongly and
            // weakly owned): the property being checked gets to report its own condition.
            let same_event_other_property = self.violation_event == self.events
                && self.claim.is_none()
                && self.focus.as_deref().map(|f| f == prop && f != v.prop).unwrap_or(false);
            if !same_event_other_property {
                return;
            }
            self.violation = None;
        }
        let t = sched::tid();
        let op = if t < sched::MAX_THREADS {
            format!("{}#{}", self.cur_desc[t].0, self.cur_desc[t].1)
        } else {
            String::new()
        };
        self.log(|| format!("VIOLATION {} {} {}", prop, kind, detail));
        let (prop, detail) = match self.claim {
            Some(c) if c != prop => (c, format!("{} (a {} condition)", detail, prop)),
            _ => (prop, detail),
        };
        if let Some(f) = &self.focus {
            // (the count-word-after-free observation is harmless to continue from: the block is
            // quarantined, not freed)
            if f != prop && (["C13", "C14", "C15", "C16", "C05", "C02"].contains(&prop) || kind == "count-access-after-free") {
                if self.foreign.len() < 8 {
                    self.foreign.push((prop, kind));
                }
                return;
            }
        }
        self.violation = Some(Violation {
            prop,
            kind,
            detail,
            tid: t,
            op,
            clock: self.clock,
        });
        self.violation_event = self.events;
        if t != sched::NONE {
            sched::halt_execution();
        }
    }

    // ---------------------------------------------------------------------------------
    // hook events

    pub fn on_event(&mut self, ev: &Event) {
        self.events += 1;
        let t = sched::tid();
        match *ev {
            Event::Alloc { obj, strong } => {
                let ord = self.objs.len() as u32;
                self.by_addr.insert(obj, ord);
                self.objs.push(Obj {
                    addr: obj,
                    ord,
                    node_id: u32::MAX,
                    init_strong: strong,
                    ..Default::default()
                });
                self.mix(0x10 ^ ((ord as u64) << 8) ^ ((strong as u64) << 40));
                self.log(|| format!("alloc o{} strong={}", ord, strong));
            }
            Event::Dealloc { obj } => {
                let Some(&o) = self.by_addr.get(&obj) else {
                    return;
                };
                self.mix(0x11 ^ ((o as u64) << 8));
                self.log(|| format!("dealloc o{}", o));
                let x = &mut self.objs[o as usize];
                x.deallocs += 1;
                let (so, wo, holds, wholds, deallocs, begun, ended) = (
                    x.strong_owners(),
                    x.weak_owners(),
                    x.holds.len(),
                    x.wholds.len(),
                    x.deallocs,
                    x.begun,
                    x.ended,
                );
                if deallocs > 1 {
                    self.violate("C04", "double-free", format!("o{} freed twice", o));
                }
                if so > 0 {
                    self.violate(
                        "C01",
                        "dealloc-while-owned",
                        format!("o{} freed while {} strong owner(s) exist", o, so),
                    );
                }
                if holds > 0 {
                    self.violate(
                        "C02",
                        "dealloc-while-snapshot-held",
                        format!("o{} freed while a Snapshot of it is in use", o),
                    );
                }
                if wo > 0 || wholds > 0 {
                    self.violate(
                        "C03",
                        "dealloc-while-weak",
                        format!(
                            "o{} freed while {} weak owner(s) / {} weak snapshot(s) exist",
                            o, wo, wholds
                        ),
                    );
                }
                if begun == 0 || ended < begun {
                    self.violate(
                        "C04",
                        "free-before-destruct",
                        format!("o{} freed before its destructor completed", o),
                    );
                }
            }
            Event::DestructDecided { obj } => {
                let Some(&o) = self.by_addr.get(&obj) else {
                    return;
                };
                self.mix(0x12 ^ ((o as u64) << 8));
                self.log(|| format!("destruct-decided o{}", o));
                self.destruct_started(o, 0, false);
            }
            Event::DestructBegin { obj, depth } => {
                let Some(&o) = self.by_addr.get(&obj) else {
                    return;
                };
                self.mix(0x13 ^ ((o as u64) << 8) ^ ((depth.min(2) as u64) << 40));
                self.log(|| format!("destruct-begin o{} depth={}", o, depth));
                self.destruct_started(o, depth, true);
                self.destructs += 1;
                self.last_destruct_epoch = self.global_epoch;
                if t < sched::MAX_THREADS {
                    self.tm[t].destructing = Some(o);
                }
                if depth > 0 {
                    self.cover("cascade-child-destructed");
                }
            }
            Event::DestructEnd { obj } => {
                let Some(&o) = self.by_addr.get(&obj) else {
                    return;
                };
                self.mix(0x14 ^ ((o as u64) << 8));
                self.objs[o as usize].ended += 1;
                if t < sched::MAX_THREADS {
                    self.tm[t].destructing = None;
                }
            }
            Event::RcDefer { kind, obj } => {
                let o = self.by_addr.get(&obj).copied().unwrap_or(u32::MAX);
                self.pending[kind as usize & 1] += 1;
                self.mix(0x15 ^ ((o as u64) << 8) ^ ((kind as u64) << 40));
                self.log(|| format!("rc-defer kind={} o{}", kind, o));
            }
            Event::RcRun { kind, obj } => {
                let o = self.by_addr.get(&obj).copied().unwrap_or(u32::MAX);
                self.pending[kind as usize & 1] -= 1;
                self.mix(0x16 ^ ((o as u64) << 8) ^ ((kind as u64) << 40));
                self.log(|| format!("rc-run kind={} o{}", kind, o));
                if kind == 0 {
                    self.cover("try-destruct-ran");
                }
            }
            Event::LinkWrite {
                cell,
                old,
                new,
                weak,
            } => self.link_write(t, cell, old, new, weak),
            Event::CellDrop { cell, word, weak } => {
                let c = self.canon(cell);
                self.mix(0x18 ^ ((c as u64) << 8));
                if self.cells.remove(&cell).is_some() {
                    if let Some(o) = self.obj_of_word(word) {
                        if weak {
                            self.objs[o as usize].wcells -= 1;
                        } else {
                            self.objs[o as usize].cells -= 1;
                        }
                    }
                }
                self.log(|| format!("cell-drop c{} weak={}", c, weak));
            }
            Event::Pinned { local, epoch } => {
                let l = self.canon(local);
                self.mix(0x20 ^ ((l as u64) << 8) ^ ((epoch as u64 & 0xffff) << 40));
                self.locals.insert(local, Some(epoch));
                if t < sched::MAX_THREADS {
                    self.ebr.last_pin[t] = Some((local, epoch));
                }
                self.log(|| format!("pinned L{} e={}", l, epoch));
                self.check_epoch_invariant("pinned");
            }
            Event::Repinned { local, epoch } => {
                let l = self.canon(local);
                self.mix(0x21 ^ ((l as u64) << 8) ^ ((epoch as u64 & 0xffff) << 40));
                self.locals.insert(local, Some(epoch));
                self.log(|| format!("repinned L{} e={}", l, epoch));
                self.cover("repinned");
                if t < sched::MAX_THREADS {
                    self.ebr.last_pin[t] = Some((local, epoch));
                    // The library re-pins on its own only while it collects, i.e. after the
                    // thread's last guard has begun to go away. A driver-level critical section
                    // (first guard obtained .. last guard about to be dropped, not reactivated)
                    // keeps the epoch it was pinned in.
                    if let Some((cl, ce)) = self.ebr.cs_pin[t] {
                        if cl == local && ce != epoch && self.ebr.active[t].is_some() {
                            self.violate(
                                "C16",
                                "repinned-with-live-guards",
                                format!(
                                    "participant L{} was moved from epoch {} to {} while the thread holds {} live guard(s) and did not reactivate: its critical section was silently ended",
                                    l, ce, epoch, self.ebr.depth[t]
                                ),
                            );
                        }
                    }
                }
                self.check_epoch_invariant("repinned");
            }
            Event::Unpinned { local } => {
                let l = self.canon(local);
                self.mix(0x22 ^ ((l as u64) << 8));
                self.locals.insert(local, None);
                self.log(|| format!("unpinned L{}", l));
            }
            Event::EpochStore { addr, old, new } => {
                if addr == self.global_epoch_addr && addr != 0 {
                    self.epoch_stores += 1;
                    let (o, n) = (old >> 1, new >> 1);
                    self.mix(0x23 ^ ((n as u64 & 0xffff) << 8));
                    self.log(|| format!("global-epoch {} -> {}", o, n));
                    if !(n == o || n == epoch_succ(o)) {
                        self.violate(
                            "C14",
                            "epoch-jump",
                            format!("global epoch stored {} over {}", n, o),
                        );
                    }
                    if n != o {
                        self.cover("epoch-advanced");
                    }
                    self.global_epoch = Some(n);
                    self.check_epoch_invariant("advance");
                    // the same bound for the epoch a driver-level critical section began with,
                    // whatever the participant announces by now
                    for u in 0..sched::MAX_THREADS {
                        if let (Some(_), Some((_, ce))) = (self.ebr.active[u], self.ebr.cs_pin[u]) {
                            let d = epoch_dist(n, ce);
                            if d > 1 && d < EPOCH_MOD / 2 {
                                self.violate(
                                    "C14",
                                    "critical-section-sees-two-advances",
                                    format!("thread {} has been inside one critical section since epoch {} and the global epoch is now {}", u, ce, n),
                                );
                            }
                        }
                    }
                }
            }
            Event::BagSealed { epoch, len } => {
                self.mix(0x24 ^ ((epoch as u64 & 0xffff) << 8) ^ ((len as u64) << 40));
                self.log(|| format!("bag-sealed e={} len={}", epoch, len));
            }
            Event::BagExpired { epoch } => {
                self.mix(0x25 ^ ((epoch as u64 & 0xffff) << 8));
                self.log(|| format!("bag-expired e={}", epoch));
            }
            Event::Registered { local } => {
                // a new participant gets a new identity even if the allocator reuses the address
                // of one that has been reclaimed earlier in this execution (which depends on when
                // exited OS threads give their memory back, i.e. not on the schedule)
                self.canon.remove(&local);
                let l = self.canon(local);
                self.mix(0x26 ^ ((l as u64) << 8));
                self.locals.insert(local, None);
                self.log(|| format!("registered L{}", l));
            }
            Event::Finalized { local } => {
                let l = self.canon(local);
                self.mix(0x27 ^ ((l as u64) << 8));
                self.locals.remove(&local);
                self.log(|| format!("finalized L{}", l));
            }
            Event::ListFinalize { id } => {
                self.mix(0x28 ^ ((id as u64) << 8));
                self.log(|| format!("list-finalize {}", id));
                crate::scen::ebr::on_list_finalize(self, id);
            }
        }
    }

    /// C14: while a participant is pinned at `e`, the global epoch is `e` or `e + 1`.
    fn check_epoch_invariant(&mut self, at: &'static str) {
        let Some(g) = self.global_epoch else {
            return;
        };
        let mut bad = None;
        for (&l, &p) in self.locals.iter() {
            if let Some(e) = p {
                let d = epoch_dist(g, e);
                if d > 1 {
                    bad = Some((l, e));
                }
            }
        }
        if let Some((l, e)) = bad {
            let l = self.canon(l);
            self.violate(
                "C14",
                "pinned-sees-two-advances",
                format!(
                    "at {}: participant L{} pinned at epoch {} while the global epoch is {}",
                    at, l, e, g
                ),
            );
        }
    }

    fn destruct_started(&mut self, o: u32, depth: usize, begin: bool) {
        let clock = self.clock;
        let x = &mut self.objs[o as usize];
        if !x.decided {
            x.decided = true;
            x.decided_at = clock;
            x.decided_depth = depth as i64;
        }
        if begin {
            x.begun += 1;
        }
        let (so, holds, begun) = (x.strong_owners(), x.holds.clone(), x.begun);
        if begun > 1 {
            self.violate(
                "C04",
                "double-destruct",
                format!("o{} destructed twice (depth {})", o, depth),
            );
        }
        if so > 0 {
            let x = &self.objs[o as usize];
            self.violate(
                "C01",
                "destruct-while-owned",
                format!(
                    "o{} destructed (depth {}) while strongly owned: {} Rc value(s), {} link(s), {} in flight",
                    o, depth, x.held, x.cells, x.inflight
                ),
            );
        }
        if !holds.is_empty() {
            self.violate(
                "C02",
                "destruct-while-snapshot-held",
                format!(
                    "o{} destructed (depth {}) while thread {} uses a Snapshot of it under active guard g{}",
                    o, depth, holds[0].0, holds[0].1
                ),
            );
        }
    }

    fn link_write(&mut self, t: usize, cell: usize, old: usize, new: usize, weak: bool) {
        let c = self.canon(cell);
        let oo = self.obj_of_word(old);
        let on = self.obj_of_word(new);
        self.mix(
            0x17 ^ ((c as u64) << 8)
                ^ ((oo.map(|x| x + 1).unwrap_or(0) as u64) << 24)
                ^ ((on.map(|x| x + 1).unwrap_or(0) as u64) << 40),
        );
        self.log(|| {
            format!(
                "link-write c{} {:?} -> {:?} weak={}",
                c,
                oo.map(|x| format!("o{}", x)),
                on.map(|x| format!("o{}", x)),
                weak
            )
        });
        let Some(&(held, _)) = self.cells.get(&cell) else {
            // A cell the driver never registered (not reachable by the program): ignore.
            return;
        };
        // The operation reports what it believes it replaced. Every write of a link is one atomic
        // read-modify-write (swap, compare_exchange) or happens under exclusive access (take), so
        // that must be what the link really held: otherwise another write was lost in between.
        if (self.word_addr)(held) != (self.word_addr)(old) {
            let (h, o) = (self.obj_of_word(held), oo);
            self.violate(
                if weak { "C09" } else { "C08" },
                "link-write-not-atomic",
                format!(
                    "a write to link c{} released {:?} as the previous content, but the link held {:?}: a concurrent write was lost",
                    c,
                    o.map(|x| format!("o{}", x)),
                    h.map(|x| format!("o{}", x))
                ),
            );
        }
        self.cells.insert(cell, (new, weak));
        let op = if t < sched::MAX_THREADS {
            self.cur_op[t]
        } else {
            CurOp::None
        };
        if let Some(o) = oo {
            let x = &mut self.objs[o as usize];
            if weak {
                x.wcells -= 1;
            } else {
                x.cells -= 1;
            }
            if op == CurOp::SwapLike {
                if weak {
                    x.winflight += 1;
                } else {
                    x.inflight += 1;
                }
                self.tm[t].ret_inflight = Some((o, weak));
            }
        }
        if let Some(o) = on {
            let x = &mut self.objs[o as usize];
            if weak {
                x.wcells += 1;
            } else {
                x.cells += 1;
            }
            if t < sched::MAX_THREADS && op != CurOp::Tag {
                if let Some((io, iw)) = self.tm[t].inflight {
                    if io == o && iw == weak {
                        if weak {
                            x.winflight -= 1;
                        } else {
                            x.inflight -= 1;
                        }
                        self.tm[t].inflight = None;
                    }
                }
            }
        }
    }

    // ---------------------------------------------------------------------------------
    // epoch collector, harness level

    /// The outermost guard of thread `t` has been obtained.
    pub fn cs_enter(&mut self, t: usize) {
        self.ebr.depth[t] += 1;
        if self.ebr.depth[t] == 1 {
            let id = self.ebr.ended.len() as u32;
            self.ebr.ended.push(false);
            self.ebr.active[t] = Some(id);
            self.ebr.cs_pin[t] = self.ebr.last_pin[t];
            self.log(|| format!("cs-instance {} begins", id));
        }
    }

    /// A guard of thread `t` is about to be dropped.
    pub fn cs_leave(&mut self, t: usize) {
        if self.ebr.depth[t] == 0 {
            // a guard the monitor was never told about
            return;
        }
        self.ebr.depth[t] -= 1;
        if self.ebr.depth[t] == 0 {
            if let Some(id) = self.ebr.active[t].take() {
                self.ebr.ended[id as usize] = true;
                self.log(|| format!("cs-instance {} ends", id));
            }
            self.ebr.cs_pin[t] = None;
        }
    }

    /// Reactivation of the sole guard: the instance ends (and a new one begins afterwards).
    pub fn cs_restart_begin(&mut self, t: usize) -> bool {
        if self.ebr.depth[t] == 1 {
            if let Some(id) = self.ebr.active[t].take() {
                self.ebr.ended[id as usize] = true;
            }
            self.ebr.cs_pin[t] = None;
            true
        } else {
            false
        }
    }

    pub fn cs_restart_end(&mut self, t: usize) {
        if self.ebr.depth[t] == 1 && self.ebr.active[t].is_none() {
            let id = self.ebr.ended.len() as u32;
            self.ebr.ended.push(false);
            self.ebr.active[t] = Some(id);
            self.ebr.cs_pin[t] = self.ebr.last_pin[t];
        }
    }

    pub fn closure_deferred(&mut self, t: usize) -> usize {
        let active: Vec<u32> = self.ebr.active.iter().flatten().copied().collect();
        self.ebr.deferred.push(DefInfo {
            active_at_defer: active,
            runs: 0,
            by: t,
            ran_at: 0,
        });
        let id = self.ebr.deferred.len() - 1;
        self.mix(0x50 ^ ((id as u64) << 8) ^ ((t as u64) << 40));
        self.log(|| format!("closure {} deferred", id));
        id
    }

    pub fn closure_ran(&mut self, id: usize) {
        let clock = self.clock;
        self.mix(0x51 ^ ((id as u64) << 8));
        self.log(|| format!("closure {} runs", id));
        self.cover("closure-ran");
        let Some(d) = self.ebr.deferred.get_mut(id) else {
            return;
        };
        d.runs += 1;
        d.ran_at = clock;
        let runs = d.runs;
        let still: Vec<u32> = d
            .active_at_defer
            .iter()
            .copied()
            .filter(|&i| !self.ebr.ended[i as usize])
            .collect();
        if runs > 1 {
            self.violate("C15", "ran-twice", format!("deferred function {} ran {} times", id, runs));
        }
        if let Some(i) = still.first() {
            self.violate(
                "C13",
                "ran-under-active-section",
                format!(
                    "deferred function {} ran while critical section instance {} that was active when it was deferred is still active",
                    id, i
                ),
            );
        }
    }

    // ---------------------------------------------------------------------------------
    // driver-side bookkeeping

    pub fn register_cell(&mut self, cell: usize, word: usize, weak: bool) {
        self.canon(cell);
        self.cells.insert(cell, (word, weak));
        if let Some(o) = self.obj_of_word(word) {
            if weak {
                self.objs[o as usize].wcells += 1;
            } else {
                self.objs[o as usize].cells += 1;
            }
        }
    }

    /// The driver replaced the content of a weak cell through exclusive access (`get_mut`), which
    /// emits no event: the previous content was dropped as a plain `Weak`.
    pub fn cell_assign(&mut self, cell: usize, word: usize) {
        if let Some((old, weak)) = self.cells.insert(cell, (word, true)) {
            debug_assert!(weak);
            if let Some(o) = self.obj_of_word(old) {
                self.objs[o as usize].wcells -= 1;
            }
        }
        if let Some(o) = self.obj_of_word(word) {
            self.objs[o as usize].wcells += 1;
        }
    }

    /// The driver starts to certainly own a strong (weak) reference.
    pub fn acquire(&mut self, word: usize, weak: bool) -> Option<u32> {
        let o = self.obj_of_word(word)?;
        let x = &mut self.objs[o as usize];
        if weak {
            x.wheld += 1;
        } else {
            x.held += 1;
        }
        Some(o)
    }

    /// The driver hands a reference to an operation that consumes it.
    pub fn release(&mut self, word: usize, weak: bool) -> Option<u32> {
        let o = self.obj_of_word(word)?;
        let x = &mut self.objs[o as usize];
        if weak {
            x.wheld -= 1;
        } else {
            x.held -= 1;
        }
        Some(o)
    }

    /// A reference moves from the driver into an operation that will store it or give it back.
    pub fn to_inflight(&mut self, t: usize, word: usize, weak: bool) {
        if let Some(o) = self.release(word, weak) {
            let x = &mut self.objs[o as usize];
            if weak {
                x.winflight += 1;
            } else {
                x.inflight += 1;
            }
            self.tm[t].inflight = Some((o, weak));
        }
    }

    /// End of a store/swap/CAS: whatever is still in flight is handed (back) to the driver.
    /// Returns (desired came back, old content returned).
    pub fn settle(&mut self, t: usize, desired_back: bool, old_returned: bool) {
        if let Some((o, weak)) = self.tm[t].inflight.take() {
            let x = &mut self.objs[o as usize];
            if weak {
                x.winflight -= 1;
                if desired_back {
                    x.wheld += 1;
                }
            } else {
                x.inflight -= 1;
                if desired_back {
                    x.held += 1;
                }
            }
        }
        if let Some((o, weak)) = self.tm[t].ret_inflight.take() {
            let x = &mut self.objs[o as usize];
            if weak {
                x.winflight -= 1;
                if old_returned {
                    x.wheld += 1;
                }
            } else {
                x.inflight -= 1;
                if old_returned {
                    x.held += 1;
                }
            }
        }
    }

    pub fn hold(&mut self, t: usize, gid: u32, word: usize, weak: bool) {
        if let Some(o) = self.obj_of_word(word) {
            let x = &mut self.objs[o as usize];
            let v = if weak { &mut x.wholds } else { &mut x.holds };
            if !v.contains(&(t, gid)) {
                v.push((t, gid));
            }
        }
    }

    pub fn guard_end(&mut self, t: usize, gid: u32) {
        for x in self.objs.iter_mut() {
            x.holds.retain(|&(tt, g)| !(tt == t && g == gid));
            x.wholds.retain(|&(tt, g)| !(tt == t && g == gid));
        }
    }

    pub fn new_gid(&mut self) -> u32 {
        let g = self.next_gid;
        self.next_gid += 1;
        g
    }

    pub fn bind_node(&mut self, word: usize, node_id: u32) {
        if let Some(o) = self.obj_of_word(word) {
            self.objs[o as usize].node_id = node_id;
            self.by_node.insert(node_id, o);
        }
    }

    pub fn payload_pop(&mut self, node_id: u32) {
        let Some(&o) = self.by_node.get(&node_id) else {
            return;
        };
        let x = &mut self.objs[o as usize];
        x.pops += 1;
        let (pops, drops) = (x.pops, x.drops);
        self.mix(0x30 ^ ((o as u64) << 8));
        if pops > 1 {
            self.violate(
                "C04",
                "double-pop-edges",
                format!("pop_edges of o{} ran twice", o),
            );
        }
        if drops > 0 {
            self.violate(
                "C04",
                "pop-edges-after-drop",
                format!("pop_edges of o{} ran after its destructor", o),
            );
        }
    }

    pub fn payload_drop(&mut self, node_id: u32) {
        let Some(&o) = self.by_node.get(&node_id) else {
            return;
        };
        let x = &mut self.objs[o as usize];
        x.drops += 1;
        let (pops, drops) = (x.pops, x.drops);
        self.mix(0x31 ^ ((o as u64) << 8));
        if drops > 1 {
            self.violate(
                "C04",
                "double-drop",
                format!("destructor of o{} ran twice", o),
            );
        }
        if pops == 0 {
            self.violate(
                "C04",
                "drop-before-pop-edges",
                format!("destructor of o{} ran without pop_edges before it", o),
            );
        }
    }

    /// C03: a count-word access must hit a block that has not been freed.
    pub fn state_point(&mut self, addr: usize) {
        if !self.check_state_points {
            return;
        }
        if let Some(&o) = self.by_addr.get(&addr) {
            if self.objs[o as usize].deallocs > 0 {
                self.violate(
                    "C03",
                    "count-access-after-free",
                    format!("count word of o{} accessed after the block was freed", o),
                );
            }
        }
    }

    pub fn op_begin(&mut self, t: usize, kind: &'static str, args: [i64; 4]) -> usize {
        let inv = self.tick();
        self.cur_desc[t] = (kind, inv);
        self.mix(0x40 ^ (fx(kind) << 8) ^ (args[0] as u64).wrapping_mul(31) ^ ((t as u64) << 60));
        self.log(|| format!("-> {} {:?}", kind, args));
        self.hist.push(OpRec {
            tid: t,
            kind,
            args,
            res: [0; 4],
            inv,
            resp: 0,
        });
        self.hist.len() - 1
    }

    pub fn op_end(&mut self, idx: usize, res: [i64; 4]) {
        let resp = self.tick();
        let r = &mut self.hist[idx];
        r.res = res;
        r.resp = resp;
        let (t, kind) = (r.tid, r.kind);
        let h = fx(kind)
            ^ (res[0] as u64).wrapping_mul(0x9e3779b97f4a7c15)
            ^ (res[1] as u64).wrapping_mul(0xc2b2ae3d27d4eb4f)
            ^ (res[2] as u64).wrapping_mul(0x165667b19e3779f9)
            ^ ((t as u64) << 56);
        self.mix(0x41 ^ h);
        self.mix_outcome(h ^ (idx as u64).wrapping_mul(0x27d4eb2f165667c5));
        self.log(|| format!("<- {} {:?}", kind, res));
        if t < sched::MAX_THREADS {
            self.cur_op[t] = CurOp::None;
        }
    }

    /// End-of-execution lifecycle check (C04); call after the drain, when nothing is running.
    pub fn check_quiescent(&mut self, drained: bool) {
        if self.violation.is_some() {
            return;
        }
        for i in 0..self.objs.len() {
            let x = self.objs[i].clone();
            if x.strong_owners() < 0 || x.weak_owners() < 0 {
                self.notes.push(format!(
                    "harness bookkeeping negative for o{}: {:?}",
                    x.ord, x
                ));
            }
            if x.strong_owners() == 0 && x.holds.is_empty() {
                if x.begun != 1 || x.ended != 1 {
                    self.violate(
                        "C04",
                        "leak-not-destructed",
                        format!(
                            "o{} has no strong owner left but was destructed {} time(s) after the drain (drained={})",
                            x.ord, x.begun, drained
                        ),
                    );
                    return;
                }
                if x.node_id != u32::MAX && (x.pops != 1 || x.drops != 1) {
                    self.violate(
                        "C04",
                        "payload-lifecycle",
                        format!(
                            "o{}: pop_edges ran {} time(s), destructor {} time(s)",
                            x.ord, x.pops, x.drops
                        ),
                    );
                    return;
                }
                if x.weak_owners() == 0 && x.wholds.is_empty() && x.deallocs != 1 {
                    self.violate(
                        "C04",
                        "leak-not-freed",
                        format!(
                            "o{} has no owner of any kind left but its block was freed {} time(s) after the drain",
                            x.ord, x.deallocs
                        ),
                    );
                    return;
                }
            }
        }
        if self.pending[0] != 0 || self.pending[1] != 0 {
            self.violate(
                "C04",
                "pending-tasks",
                format!(
                    "{} destruct / {} dealloc task(s) still pending after the drain",
                    self.pending[0], self.pending[1]
                ),
            );
        }
    }
}

fn tid_str() -> String {
    let t = sched::tid();
    if t == sched::NONE {
        "-".into()
    } else {
        t.to_string()
    }
}

/// Epoch values live in 63 bits (the lowest bit of the word is the pinned flag): the successor of
/// 2^63-1 is 0.
pub const EPOCH_MOD: usize = 1 << 63;
pub fn epoch_succ(e: usize) -> usize {
    (e + 1) & (EPOCH_MOD - 1)
}
/// a - b modulo 2^63
pub fn epoch_dist(a: usize, b: usize) -> usize {
    a.wrapping_sub(b) & (EPOCH_MOD - 1)
}

pub fn fx(s: &str) -> u64 {
    let mut h: u64 = 0xcbf29ce484222325;
    for b in s.bytes() {
        h = (h ^ b as u64).wrapping_mul(FNV);
    }
    h
}
