//! Cooperative scheduler: real OS threads, one running at a time, hand-off on futex words.
//!
//! A *decision* is taken whenever more than one thread could run next: at a yield point of the
//! running thread (continuing = choice 0; anything else is a preemption) and when the running
//! thread finishes (free switch). Decisions are replayed from a prefix and default to choice 0
//! afterwards; the full decision list of an execution is returned to the explorer.

use std::cell::{Cell, UnsafeCell};
use std::sync::atomic::{AtomicU32, Ordering};

pub const MAX_THREADS: usize = 8;
pub const NONE: usize = usize::MAX;

pub const CLASS_STATE: u8 = 0;
pub const CLASS_LINK: u8 = 1;
pub const CLASS_EPOCH_READ: u8 = 2;
pub const CLASS_EPOCH: u8 = 3;
pub const CLASS_RAW: u8 = 4;
/// the driver dereferences a pointer (a shared read of the payload); always a scheduling point
pub const CLASS_DEREF: u8 = 5;
/// reference-counting layer only (epoch-collector steps are atomic)
pub const RC: u8 = 1 << CLASS_STATE | 1 << CLASS_LINK | 1 << CLASS_EPOCH_READ;
/// epoch collector: epoch variables, queue and registry pointers
pub const EBR: u8 = 1 << CLASS_EPOCH | 1 << CLASS_RAW;
pub const ALL: u8 = RC | EBR;

pub fn class_names(mask: u8) -> Vec<&'static str> {
    let mut v = Vec::new();
    for (i, n) in ["State", "Link", "EpochRead", "Epoch", "Raw"].iter().enumerate() {
        if mask & (1 << i) != 0 {
            v.push(*n);
        }
    }
    v
}

#[derive(Clone, Copy, Debug, PartialEq, Eq)]
pub struct Dec {
    /// number of enabled threads at this decision (>= 2)
    pub n: u8,
    /// index into the canonical enabled list
    pub choice: u8,
    /// true if the running thread was still enabled (so a non-zero choice is a preemption)
    pub preemptible: bool,
}

#[derive(Clone, Copy, PartialEq, Eq, Debug)]
enum TState {
    Unused,
    Ready,
    Finished,
}

struct Slot {
    go: AtomicU32,
    state: Cell<TState>,
}

pub struct Sched {
    slots: [Slot; MAX_THREADS],
    n: Cell<usize>,
    current: Cell<usize>,
    controller_go: AtomicU32,
    prefix: UnsafeCell<Vec<u8>>,
    decisions: UnsafeCell<Vec<Dec>>,
    /// which thread ran after each decision (for human-readable replays)
    class_mask: Cell<u8>,
    pub steps: Cell<u64>,
    pub switches: Cell<u64>,
    active: Cell<bool>,
    diverged: Cell<bool>,
    /// set by the monitor when an execution must stop: every later yield parks its thread
    halted: Cell<bool>,
}

unsafe impl Sync for Sched {}

#[allow(clippy::declare_interior_mutable_const)]
const SLOT_INIT: Slot = Slot {
    go: AtomicU32::new(0),
    state: Cell::new(TState::Unused),
};

static SCHED: Sched = Sched {
    slots: [SLOT_INIT; MAX_THREADS],
    n: Cell::new(0),
    current: Cell::new(NONE),
    controller_go: AtomicU32::new(0),
    prefix: UnsafeCell::new(Vec::new()),
    decisions: UnsafeCell::new(Vec::new()),
    class_mask: Cell::new(0),
    steps: Cell::new(0),
    switches: Cell::new(0),
    active: Cell::new(false),
    diverged: Cell::new(false),
    halted: Cell::new(false),
};

thread_local! {
    /// Scheduler id of this thread; const-initialised and without destructor so that it stays
    /// readable during TLS teardown.
    static TID: Cell<usize> = const { Cell::new(NONE) };
}

struct Sentinel(Cell<usize>);
impl Drop for Sentinel {
    fn drop(&mut self) {
        let tid = self.0.get();
        if tid != NONE {
            thread_finished(tid);
        }
    }
}
thread_local! {
    /// Registered before anything of circ's, hence destroyed after circ's `HANDLE` (TLS
    /// destructors run in reverse order of registration): the thread counts as finished only
    /// when this is dropped, so that circ's thread-exit path runs under the scheduler.
    static SENTINEL: Sentinel = const { Sentinel(Cell::new(NONE)) };
}

#[inline]
pub fn tid() -> usize {
    TID.with(|t| t.get())
}

fn futex_wait(a: &AtomicU32, expected: u32, timeout_s: Option<i64>) -> bool {
    let ts = timeout_s.map(|s| libc::timespec {
        tv_sec: s,
        tv_nsec: 0,
    });
    let r = unsafe {
        libc::syscall(
            libc::SYS_futex,
            a as *const AtomicU32,
            libc::FUTEX_WAIT | libc::FUTEX_PRIVATE_FLAG,
            expected,
            ts.as_ref()
                .map(|t| t as *const libc::timespec)
                .unwrap_or(std::ptr::null()),
        )
    };
    if r == -1 {
        let e = unsafe { *libc::__errno_location() };
        if e == libc::ETIMEDOUT {
            return false;
        }
    }
    true
}

fn futex_wake(a: &AtomicU32) {
    unsafe {
        libc::syscall(
            libc::SYS_futex,
            a as *const AtomicU32,
            libc::FUTEX_WAKE | libc::FUTEX_PRIVATE_FLAG,
            1,
        );
    }
}

fn wait_on(a: &AtomicU32) {
    loop {
        if a.swap(0, Ordering::Acquire) == 1 {
            return;
        }
        futex_wait(a, 0, None);
    }
}

fn wake(a: &AtomicU32) {
    a.store(1, Ordering::Release);
    futex_wake(a);
}

impl Sched {
    fn decide(&self, running: Option<usize>) -> usize {
        let mut enabled = [0usize; MAX_THREADS];
        let mut k = 0;
        if let Some(t) = running {
            enabled[k] = t;
            k += 1;
        }
        for i in 0..self.n.get() {
            if self.slots[i].state.get() == TState::Ready && Some(i) != running {
                enabled[k] = i;
                k += 1;
            }
        }
        debug_assert!(k >= 1);
        if k == 1 {
            return enabled[0];
        }
        let decisions = unsafe { &mut *self.decisions.get() };
        let prefix = unsafe { &*self.prefix.get() };
        let idx = decisions.len();
        let mut choice = if idx < prefix.len() { prefix[idx] } else { 0 };
        if choice as usize >= k {
            // The prefix was recorded on another execution of the same program: the program is
            // not deterministic under this scheduler. Never a verdict.
            self.diverged.set(true);
            choice = 0;
        }
        decisions.push(Dec {
            n: k as u8,
            choice,
            preemptible: running.is_some(),
        });
        enabled[choice as usize]
    }
}

/// Called (through the hook) before a shared access by any thread.
#[inline]
pub fn point(class: u8, addr: usize) {
    let t = tid();
    if t == NONE {
        return;
    }
    let s = &SCHED;
    if !s.active.get() {
        return;
    }
    if s.halted.get() {
        park_forever();
    }
    let mask = s.class_mask.get() | (1 << CLASS_DEREF);
    if s.class_mask.get() == 0 || mask & (1 << class) == 0 {
        return;
    }
    // The reference-counting layer yields before it reads the global epoch (EpochRead, 0) and
    // after it (EpochRead, 1). When the epoch variable's own yield points are enabled the
    // former is immediately followed by one of those: skip the duplicate.
    if class == CLASS_EPOCH_READ && addr == 0 && mask & (1 << CLASS_EPOCH) != 0 {
        return;
    }
    debug_assert_eq!(s.current.get(), t);
    s.steps.set(s.steps.get() + 1);
    let next = s.decide(Some(t));
    if next != t {
        s.switches.set(s.switches.get() + 1);
        s.current.set(next);
        wake(&s.slots[next].go);
        wait_on(&s.slots[t].go);
        if s.halted.get() {
            park_forever();
        }
    }
}

fn park_forever() -> ! {
    loop {
        std::thread::park();
        unsafe { libc::pause() };
    }
}

/// Stops the execution: the calling thread tells the controller and never returns.
pub fn halt_execution() -> ! {
    let s = &SCHED;
    s.halted.set(true);
    wake(&s.controller_go);
    park_forever()
}

pub fn is_halted() -> bool {
    SCHED.halted.get()
}

fn thread_finished(t: usize) {
    let s = &SCHED;
    if s.halted.get() {
        return;
    }
    s.slots[t].state.set(TState::Finished);
    TID.with(|x| x.set(NONE));
    let mut any = false;
    for i in 0..s.n.get() {
        if s.slots[i].state.get() == TState::Ready {
            any = true;
        }
    }
    if any {
        let next = s.decide(None);
        s.switches.set(s.switches.get() + 1);
        s.current.set(next);
        wake(&s.slots[next].go);
    } else {
        s.current.set(NONE);
        wake(&s.controller_go);
    }
}

pub struct PhaseResult {
    pub panics: Vec<(usize, String)>,
    pub timed_out: bool,
    pub halted: bool,
}

/// Starts an execution: installs the replay prefix and clears the decision log.
pub fn begin_execution(prefix: &[u8]) {
    let s = &SCHED;
    unsafe {
        *s.prefix.get() = prefix.to_vec();
        (*s.decisions.get()).clear();
    }
    s.steps.set(0);
    s.switches.set(0);
    s.diverged.set(false);
    s.halted.set(false);
    s.active.set(true);
}

pub fn end_execution() -> (Vec<Dec>, bool) {
    let s = &SCHED;
    s.active.set(false);
    (unsafe { (*s.decisions.get()).clone() }, s.diverged.get())
}

pub fn stack_size() -> usize {
    256 * 1024
}

/// Runs the given bodies as scheduler threads `0..n` until all have finished (including their
/// thread-local destructors). With one body this is a plain sequential phase.
pub fn run_phase(
    class_mask: u8,
    bodies: Vec<Box<dyn FnOnce() + Send>>,
    stack: usize,
    watchdog_s: i64,
) -> PhaseResult {
    let s = &SCHED;
    let n = bodies.len();
    assert!(n >= 1 && n <= MAX_THREADS);
    s.n.set(n);
    s.class_mask.set(class_mask);
    for i in 0..MAX_THREADS {
        s.slots[i].go.store(0, Ordering::Relaxed);
        s.slots[i]
            .state
            .set(if i < n { TState::Ready } else { TState::Unused });
    }
    s.controller_go.store(0, Ordering::Relaxed);
    let panics = std::sync::Arc::new(std::sync::Mutex::new(Vec::new()));
    let mut handles = Vec::new();
    for (i, body) in bodies.into_iter().enumerate() {
        let panics = panics.clone();
        let h = std::thread::Builder::new()
            .name(format!("mc-{}", i))
            .stack_size(stack)
            .spawn(move || {
                TID.with(|x| x.set(i));
                SENTINEL.with(|x| x.0.set(i));
                wait_on(&SCHED.slots[i].go);
                if SCHED.halted.get() {
                    park_forever();
                }
                let r = std::panic::catch_unwind(std::panic::AssertUnwindSafe(body));
                if let Err(e) = r {
                    let msg = if let Some(s) = e.downcast_ref::<&str>() {
                        s.to_string()
                    } else if let Some(s) = e.downcast_ref::<String>() {
                        s.clone()
                    } else {
                        "panic".to_string()
                    };
                    panics.lock().unwrap().push((i, msg));
                }
            })
            .expect("spawn");
        handles.push(h);
    }
    let first = s.decide(None);
    s.current.set(first);
    wake(&s.slots[first].go);
    // Wait for the last thread to finish (or for a halt).
    let mut timed_out = false;
    loop {
        if s.controller_go.swap(0, Ordering::Acquire) == 1 {
            break;
        }
        if !futex_wait(&s.controller_go, 0, Some(watchdog_s)) {
            if s.controller_go.swap(0, Ordering::Acquire) == 1 {
                break;
            }
            timed_out = true;
            break;
        }
    }
    let halted = s.halted.get();
    if !timed_out && !halted {
        for h in handles {
            let _ = h.join();
        }
    }
    // When halted or timed out the threads are left parked; the process is about to exit.
    let p = panics.lock().unwrap().clone();
    PhaseResult {
        panics: p,
        timed_out,
        halted,
    }
}

pub fn steps() -> u64 {
    SCHED.steps.get()
}
pub fn switches() -> u64 {
    SCHED.switches.get()
}
