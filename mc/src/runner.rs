//! Parent side: preemption-bounded depth-first search over schedules (and enumeration of cases),
//! driving execution-server processes; aggregation, known-finding classification, evidence.

use std::collections::{BTreeMap, HashSet, VecDeque};
use std::io::{BufRead, BufReader, Write};
use std::process::{Child, ChildStdin, ChildStdout, Command, Stdio};
use std::sync::{Arc, Mutex};
use std::time::{Duration, Instant};

use serde_json::{json, Value};

use crate::exec::Params;
use crate::worker::{decode_decisions, encode_prefix};

#[derive(Clone, Debug)]
pub struct Unit {
    pub scenario: String,
    pub params: Params,
    /// case indices handed to the scenario builder as parameter `case`
    pub cases: std::ops::Range<i64>,
    /// preemption bound
    pub bound: usize,
    /// (j, k): explore only the subtrees of the root execution's children whose index is j mod k
    pub slice: (usize, usize),
    /// run the executions in the binary built with debug assertions (profile `dbgassert`)
    pub dbg: bool,
    /// a worker that dies (abort, signal) while executing is an observation of this scenario
    /// rather than machinery trouble: "does not panic or abort" is part of the property
    pub death_is_violation: bool,
}

impl Unit {
    pub fn new(scenario: &str, params: Params, bound: usize) -> Unit {
        Unit {
            scenario: scenario.to_string(),
            params,
            cases: 0..1,
            bound,
            slice: (0, 1),
            dbg: false,
            death_is_violation: false,
        }
    }
    pub fn slice(mut self, j: usize, k: usize) -> Unit {
        self.slice = (j, k);
        self
    }
    pub fn cases(mut self, r: std::ops::Range<i64>) -> Unit {
        self.cases = r;
        self
    }
}

#[derive(Clone, Debug)]
pub struct Goal {
    pub scenario: String,
    pub key: String,
}

pub fn goal(scenario: &str, key: &str) -> Goal {
    Goal {
        scenario: scenario.to_string(),
        key: key.to_string(),
    }
}

#[derive(Default, Debug)]
pub struct ScenStats {
    pub executions: u64,
    pub cases: u64,
    pub steps: u64,
    pub decisions_max: usize,
    pub by_preemptions: [u64; 8],
    pub hashes: HashSet<u64>,
    pub outcomes: HashSet<u64>,
    pub nontrivial: HashSet<u64>,
    pub cover: BTreeMap<String, u64>,
    pub capped: bool,
    pub bound: usize,
    pub units: u64,
    pub samples: Vec<Value>,
}

#[derive(Clone, Debug)]
pub struct Found {
    pub prop: String,
    pub kind: String,
    pub detail: String,
    pub op: String,
    pub scenario: String,
    pub params: Params,
    pub case: i64,
    pub choices: String,
    pub hash: String,
    pub bound: usize,
}

#[derive(Default)]
pub struct Agg {
    pub scen: BTreeMap<String, ScenStats>,
    pub found: Vec<Found>,
    pub known_hits: BTreeMap<usize, u64>,
    pub foreign: BTreeMap<String, u64>,
    pub machinery: Vec<String>,
    pub stop: bool,
}

pub struct Known {
    pub property: String,
    pub scenario: String,
    pub kind: String,
    pub describe: String,
}

pub fn load_known() -> (Vec<Known>, Vec<String>) {
    let path = "/verif/known_findings.json";
    let Ok(s) = std::fs::read_to_string(path) else {
        return (vec![], vec![]);
    };
    let v: Value = serde_json::from_str(&s).expect("known_findings.json");
    let mut out = vec![];
    for f in v["findings"].as_array().cloned().unwrap_or_default() {
        out.push(Known {
            property: f["property"].as_str().unwrap_or("").to_string(),
            scenario: f["scenario"].as_str().unwrap_or("").to_string(),
            kind: f["kind"].as_str().unwrap_or("").to_string(),
            describe: f["describe"].as_str().unwrap_or("").to_string(),
        });
    }
    let fixed = v["fixed"]
        .as_array()
        .cloned()
        .unwrap_or_default()
        .iter()
        .filter_map(|x| x.as_str().map(|s| s.to_string()))
        .collect();
    (out, fixed)
}

pub fn known_match(k: &Known, prop: &str, scenario: &str, kind: &str) -> bool {
    k.property == prop
        && k.kind == kind
        && (k.scenario == scenario
            || (k.scenario.ends_with('*') && scenario.starts_with(k.scenario.trim_end_matches('*'))))
}

pub struct WorkerProc {
    child: Option<(Child, ChildStdin, BufReader<ChildStdout>)>,
    scenario: String,
    params: Params,
    core: usize,
    dbg: bool,
}

pub const DBG_EXE: &str = "/verif/target/dbgassert/circ-mc";

impl WorkerProc {
    pub fn new(scenario: &str, params: &Params, core: usize, dbg: bool) -> Self {
        WorkerProc {
            child: None,
            scenario: scenario.to_string(),
            params: params.clone(),
            core,
            dbg,
        }
    }

    fn ensure(&mut self) {
        if self.child.is_some() {
            return;
        }
        let exe = if self.dbg {
            std::path::PathBuf::from(DBG_EXE)
        } else {
            std::env::current_exe().expect("current_exe")
        };
        let mut c = Command::new(exe)
            .arg("worker")
            .arg(&self.scenario)
            .arg(self.params.render())
            .arg(self.core.to_string())
            .stdin(Stdio::piped())
            .stdout(Stdio::piped())
            .stderr(if self.dbg { Stdio::null() } else { Stdio::inherit() })
            .spawn()
            .expect("spawn worker");
        let stdin = c.stdin.take().unwrap();
        let stdout = BufReader::new(c.stdout.take().unwrap());
        self.child = Some((c, stdin, stdout));
    }

    pub fn kill(&mut self) {
        if let Some((mut c, stdin, _)) = self.child.take() {
            drop(stdin);
            let _ = c.kill();
            let _ = c.wait();
        }
    }

    /// Runs one execution. `Err` means the worker died without answering.
    pub fn run(&mut self, case: i64, prefix: &[u8], trace: bool) -> Result<Value, String> {
        self.ensure();
        let (_, stdin, stdout) = self.child.as_mut().unwrap();
        let req = format!(
            "{} {}{}\n",
            case,
            encode_prefix(prefix),
            if trace { " trace" } else { "" }
        );
        if stdin.write_all(req.as_bytes()).is_err() || stdin.flush().is_err() {
            self.kill();
            return Err("worker closed its input".into());
        }
        let mut line = String::new();
        match stdout.read_line(&mut line) {
            Ok(n) if n > 0 => {}
            _ => {
                let status = self
                    .child
                    .take()
                    .map(|(mut c, _, _)| c.wait().map(|s| s.to_string()).unwrap_or_default())
                    .unwrap_or_default();
                return Err(format!("worker died without answering ({})", status));
            }
        }
        let v: Value = serde_json::from_str(&line).map_err(|e| format!("bad reply: {}", e))?;
        if v["dirty"].as_bool().unwrap_or(false) {
            if let Some((mut c, stdin, _)) = self.child.take() {
                drop(stdin);
                let _ = c.wait();
            }
        }
        Ok(v)
    }
}

impl Drop for WorkerProc {
    fn drop(&mut self) {
        if let Some((mut c, mut stdin, _)) = self.child.take() {
            let _ = stdin.write_all(b"quit\n");
            drop(stdin);
            let _ = c.wait();
        }
    }
}

fn hex(v: &Value) -> u64 {
    u64::from_str_radix(v.as_str().unwrap_or("0"), 16).unwrap_or(0)
}

pub struct RunCtx {
    pub prop: String,
    pub known: Vec<Known>,
    pub deadline: Instant,
    pub agg: Mutex<Agg>,
    pub max_violations: usize,
}

/// Explores one unit completely (or until the deadline).
pub fn run_unit(u: &Unit, core: usize, ctx: &RunCtx) {
    let mut w = WorkerProc::new(&u.scenario, &u.params, core, u.dbg);
    let mut st = ScenStats {
        bound: u.bound,
        units: 1,
        ..Default::default()
    };
    let mut validated_known: HashSet<usize> = HashSet::new();
    'cases: for case in u.cases.clone() {
        st.cases += 1;
        let mut stack: Vec<Vec<u8>> = vec![vec![]];
        while let Some(prefix) = stack.pop() {
            if Instant::now() > ctx.deadline || ctx.agg.lock().unwrap().stop {
                st.capped = true;
                break 'cases;
            }
            let r = match w.run(case, &prefix, false) {
                Ok(r) => r,
                Err(e) if u.death_is_violation => {
                    // the execution killed its process: report it like a violation of the
                    // property under check, then go on with the next case
                    st.executions += 1;
                    let f = Found {
                        prop: ctx.prop.clone(),
                        kind: "process-abort".to_string(),
                        detail: format!("the process running this execution died ({}){}", e, if u.dbg { " in the build with debug assertions" } else { "" }),
                        op: String::new(),
                        scenario: u.scenario.clone(),
                        params: u.params.clone(),
                        case,
                        choices: prefix.iter().map(|c| (b'0' + c) as char).collect(),
                        hash: String::new(),
                        bound: u.bound,
                    };
                    let ki = ctx.known.iter().position(|k| known_match(k, &f.prop, &f.scenario, &f.kind));
                    let mut a = ctx.agg.lock().unwrap();
                    match ki {
                        Some(i) => *a.known_hits.entry(i).or_insert(0) += 1,
                        None => {
                            a.found.push(f);
                            if a.found.len() >= ctx.max_violations {
                                a.stop = true;
                            }
                            st.capped = true;
                            drop(a);
                            break 'cases;
                        }
                    }
                    continue;
                }
                Err(e) => {
                    ctx.agg.lock().unwrap().machinery.push(format!(
                        "{} [{}] case {} prefix {}: {}",
                        u.scenario,
                        u.params.render(),
                        case,
                        encode_prefix(&prefix),
                        e
                    ));
                    st.capped = true;
                    break 'cases;
                }
            };
            let dec = decode_decisions(r["d"].as_str().unwrap(), r["c"].as_str().unwrap());
            let panicked = !r["pan"].as_array().map(|a| a.is_empty()).unwrap_or(true);
            if panicked && u.death_is_violation && r["v"].is_null() {
                // "does not panic" is part of the property this unit decides
                st.executions += 1;
                let f = Found {
                    prop: ctx.prop.clone(),
                    kind: "panic".to_string(),
                    detail: format!("a thread of the program panicked: {}{}", r["pan"], if u.dbg { " (build with debug assertions)" } else { "" }),
                    op: String::new(),
                    scenario: u.scenario.clone(),
                    params: u.params.clone(),
                    case,
                    choices: r["c"].as_str().unwrap_or("").to_string(),
                    hash: r["h"].as_str().unwrap_or("").to_string(),
                    bound: u.bound,
                };
                let ki = ctx.known.iter().position(|k| known_match(k, &f.prop, &f.scenario, &f.kind));
                let mut a = ctx.agg.lock().unwrap();
                match ki {
                    Some(i) => *a.known_hits.entry(i).or_insert(0) += 1,
                    None => {
                        a.found.push(f);
                        if a.found.len() >= ctx.max_violations {
                            a.stop = true;
                        }
                        st.capped = true;
                        drop(a);
                        break 'cases;
                    }
                }
                continue;
            }
            let problem = r["div"].as_bool().unwrap_or(false)
                || r["to"].as_bool().unwrap_or(false)
                || panicked;
            if problem {
                ctx.agg.lock().unwrap().machinery.push(format!(
                    "{} [{}] case {} prefix {}: diverged={} timed_out={} panics={}",
                    u.scenario,
                    u.params.render(),
                    case,
                    encode_prefix(&prefix),
                    r["div"],
                    r["to"],
                    r["pan"]
                ));
                st.capped = true;
                break 'cases;
            }
            let counted = !(prefix.is_empty() && u.slice.0 != 0);
            if !counted {
                // another slice accounts for the root execution; here it only yields the children
                push_children(&mut stack, &dec, &prefix, u);
                continue;
            }
            st.executions += 1;
            st.steps += r["st"].as_u64().unwrap_or(0);
            st.decisions_max = st.decisions_max.max(dec.len());
            let pre_total = dec.iter().filter(|d| d.preemptible && d.choice != 0).count();
            st.by_preemptions[pre_total.min(7)] += 1;
            let (h, o) = (hex(&r["h"]), hex(&r["o"]));
            st.hashes.insert(h);
            st.outcomes.insert(o);
            if r["sw"].as_u64().unwrap_or(0) > 0 && dec.iter().any(|d| d.choice != 0) {
                st.nontrivial.insert(h);
            }
            for kv in r["cov"].as_array().cloned().unwrap_or_default() {
                *st.cover
                    .entry(kv[0].as_str().unwrap().to_string())
                    .or_insert(0) += kv[1].as_u64().unwrap_or(0);
            }
            for n in r["foreign"].as_array().cloned().unwrap_or_default() {
                let mut a = ctx.agg.lock().unwrap();
                *a.foreign.entry(format!("{} in {}", n.as_str().unwrap_or(""), u.scenario)).or_insert(0) += 1;
            }
            for n in r["notes"].as_array().cloned().unwrap_or_default() {
                ctx.agg
                    .lock()
                    .unwrap()
                    .machinery
                    .push(format!("{}: note: {}", u.scenario, n));
            }
            if st.samples.len() < 2 && (prefix.is_empty() || pre_total > 0) {
                st.samples.push(json!({
                    "scenario": u.scenario, "params": u.params.render(), "case": case,
                    "choices": r["c"], "decisions": dec.len(), "steps": r["st"],
                    "outcome": r["o"], "trace_hash": r["h"],
                }));
            }
            if !r["v"].is_null() {
                let v = &r["v"];
                let f = Found {
                    prop: v["prop"].as_str().unwrap().to_string(),
                    kind: v["kind"].as_str().unwrap().to_string(),
                    detail: v["detail"].as_str().unwrap().to_string(),
                    op: v["op"].as_str().unwrap().to_string(),
                    scenario: u.scenario.clone(),
                    params: u.params.clone(),
                    case,
                    choices: r["c"].as_str().unwrap().to_string(),
                    hash: r["h"].as_str().unwrap().to_string(),
                    bound: u.bound,
                };
                if f.prop != ctx.prop {
                    let mut a = ctx.agg.lock().unwrap();
                    *a.foreign
                        .entry(format!("{}:{} in {}", f.prop, f.kind, f.scenario))
                        .or_insert(0) += 1;
                } else {
                    let ki = ctx
                        .known
                        .iter()
                        .position(|k| known_match(k, &f.prop, &f.scenario, &f.kind));
                    let need_validation = match ki {
                        Some(i) => validated_known.insert(i),
                        None => true,
                    };
                    if need_validation {
                        if let Err(e) = validate(&f, core, u.dbg) {
                            ctx.agg.lock().unwrap().machinery.push(e);
                            st.capped = true;
                            break 'cases;
                        }
                    }
                    let mut a = ctx.agg.lock().unwrap();
                    match ki {
                        Some(i) => *a.known_hits.entry(i).or_insert(0) += 1,
                        None => {
                            a.found.push(f);
                            if a.found.len() >= ctx.max_violations {
                                a.stop = true;
                            }
                            // One counterexample per unit is enough.
                            st.capped = true;
                            drop(a);
                            break 'cases;
                        }
                    }
                }
            }
            push_children(&mut stack, &dec, &prefix, u);
        }
    }
    drop(w);
    let mut a = ctx.agg.lock().unwrap();
    let e = a.scen.entry(u.scenario.clone()).or_default();
    e.executions += st.executions;
    e.cases += st.cases;
    e.steps += st.steps;
    e.units += 1;
    e.decisions_max = e.decisions_max.max(st.decisions_max);
    for i in 0..8 {
        e.by_preemptions[i] += st.by_preemptions[i];
    }
    e.hashes.extend(st.hashes);
    e.outcomes.extend(st.outcomes);
    e.nontrivial.extend(st.nontrivial);
    for (k, v) in st.cover {
        *e.cover.entry(k).or_insert(0) += v;
    }
    e.capped |= st.capped;
    e.bound = e.bound.max(st.bound);
    if e.samples.len() < 3 {
        e.samples.extend(st.samples);
    }
}

/// Children of an execution: deviate at every decision after the prefix. An execution stopped by a
/// violation only offers the decisions it reached; everything beyond shares the violating prefix.
fn push_children(stack: &mut Vec<Vec<u8>>, dec: &[crate::sched::Dec], prefix: &[u8], u: &Unit) {
    let pre: usize = dec[..prefix.len()]
        .iter()
        .filter(|d| d.preemptible && d.choice != 0)
        .count();
    let mut idx = 0usize;
    let mut children = vec![];
    for i in prefix.len()..dec.len() {
        let d = dec[i];
        if pre + d.preemptible as usize > u.bound {
            continue;
        }
        for alt in 1..d.n {
            idx += 1;
            if prefix.is_empty() && u.slice.1 > 1 && idx % u.slice.1 != u.slice.0 {
                continue;
            }
            let mut p: Vec<u8> = dec[..i].iter().map(|d| d.choice).collect();
            p.push(alt);
            children.push(p);
        }
    }
    // depth-first, leftmost deviation first
    stack.extend(children.into_iter().rev());
}

/// Re-executes a violating schedule twice in fresh processes: same verdict, same trace.
pub fn validate(f: &Found, core: usize, dbg: bool) -> Result<(), String> {
    let prefix: Vec<u8> = f.choices.bytes().map(|b| b - b'0').collect();
    for round in 0..2 {
        let mut w = WorkerProc::new(&f.scenario, &f.params, core, dbg);
        let r = w.run(f.case, &prefix, false).map_err(|e| {
            format!(
                "replay {} of {} [{}] died: {}",
                round,
                f.scenario,
                f.params.render(),
                e
            )
        })?;
        let same = r["v"]["kind"].as_str() == Some(&f.kind)
            && r["v"]["prop"].as_str() == Some(&f.prop)
            && r["h"].as_str() == Some(&f.hash);
        if !same {
            return Err(format!(
                "replay {} of {} [{}] choices {} did not reproduce {}:{} (got {} hash {} vs {})",
                round,
                f.scenario,
                f.params.render(),
                f.choices,
                f.prop,
                f.kind,
                r["v"],
                r["h"],
                f.hash
            ));
        }
    }
    Ok(())
}

pub fn replay_json(f: &Found) -> Value {
    json!({
        "property": f.prop,
        "engine": "S",
        "scenario": f.scenario,
        "params": f.params.render(),
        "case": f.case,
        "bound": f.bound,
        "choices": f.choices,
        "verdict": {"kind": f.kind, "detail": f.detail, "op": f.op},
        "trace_hash": f.hash,
        "dbg": f.params.get("dbg", 0) == 1,
    })
}

pub struct Plan {
    pub prop: String,
    pub tier: String,
    pub units: Vec<Unit>,
    pub goals: Vec<Goal>,
    pub rule: String,
    pub assumptions: Vec<String>,
    pub bounds: Value,
    pub wall_cap_s: u64,
}

pub struct Outcome {
    pub agg: Agg,
    pub wall_s: f64,
    pub goals_unmet: Vec<String>,
}

pub fn run_units(plan: &Plan, known: Vec<Known>) -> Outcome {
    let t0 = Instant::now();
    let ctx = Arc::new(RunCtx {
        prop: plan.prop.clone(),
        known,
        deadline: t0 + Duration::from_secs(plan.wall_cap_s),
        agg: Mutex::new(Agg::default()),
        max_violations: 3,
    });
    let focus: i64 = plan.prop.trim_start_matches('C').parse().unwrap_or(0);
    let queue: Arc<Mutex<VecDeque<Unit>>> = Arc::new(Mutex::new(
        plan.units
            .iter()
            .cloned()
            .map(|mut u| {
                u.params = u.params.clone().set("focus", focus);
                u
            })
            .collect(),
    ));
    let ncores = std::thread::available_parallelism()
        .map(|n| n.get())
        .unwrap_or(4)
        .min(16);
    let nthreads = ncores.min(plan.units.len().max(1));
    let mut hs = vec![];
    for core in 0..nthreads {
        let ctx = ctx.clone();
        let queue = queue.clone();
        hs.push(std::thread::spawn(move || loop {
            let u = queue.lock().unwrap().pop_front();
            match u {
                Some(u) => run_unit(&u, core, &ctx),
                None => break,
            }
        }));
    }
    for h in hs {
        let _ = h.join();
    }
    let ctx = Arc::try_unwrap(ctx).ok().expect("ctx");
    let agg = ctx.agg.into_inner().unwrap();
    let mut goals_unmet = vec![];
    for g in plan.goals.iter() {
        let met = agg
            .scen
            .iter()
            .filter(|(k, _)| k.as_str() == g.scenario)
            .any(|(_, s)| s.cover.get(&g.key).copied().unwrap_or(0) > 0);
        // a goal says "this situation must have been reached somewhere in the scenario's space":
        // it can only be judged when that space was explored to the end (a run that was cut by the
        // wall cap, or stopped at a violation, reports that instead)
        let complete = !agg.stop && agg.scen.iter().filter(|(k, _)| k.as_str() == g.scenario).all(|(_, s)| !s.capped);
        if !met && complete {
            goals_unmet.push(format!("{}:{}", g.scenario, g.key));
        }
    }
    Outcome {
        agg,
        wall_s: t0.elapsed().as_secs_f64(),
        goals_unmet,
    }
}
