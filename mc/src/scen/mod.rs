//! Scenario catalogue: every scenario is a function from parameters to a closed program.

use crate::exec::{Params, Program};

pub mod cell;
pub mod ebr;
pub mod gen;
pub mod rc;
pub mod seq;
pub mod tls;

pub struct ScenarioDef {
    pub name: &'static str,
    pub about: &'static str,
    pub build: fn(&Params) -> Program,
}

pub fn all() -> Vec<&'static ScenarioDef> {
    let mut v: Vec<&'static ScenarioDef> = Vec::new();
    v.extend(rc::SCENARIOS.iter());
    v.extend(seq::SCENARIOS.iter());
    v.extend(cell::SCENARIOS.iter());
    v.extend(tls::SCENARIOS.iter());
    v.extend(gen::SCENARIOS.iter());
    v.extend(ebr::SCENARIOS.iter());
    v
}

pub fn find(name: &str) -> Option<&'static ScenarioDef> {
    all().into_iter().find(|s| s.name == name)
}
