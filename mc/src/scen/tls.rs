//! C20: API calls from thread-local destructors, in every order relative to circ's own
//! thread-local participant handle.

use std::cell::{Cell, RefCell};

use circ::{Rc, Weak};

use crate::exec::{Body, Params, Program};
use crate::monitor::mon;
use crate::scen::ScenarioDef;
use crate::world::{Ctx, Node, World};

pub static SCENARIOS: &[ScenarioDef] = &[ScenarioDef {
    name: "tls/destructor",
    about: "one or two thread-local objects whose destructors call into the library, initialised before / after / without the thread's participant handle",
    build: destructor,
}];

pub const ACTIONS: i64 = 10;

struct TlsObj {
    action: Cell<i64>,
    idbase: Cell<u32>,
    world: Cell<Option<&'static World>>,
    rc: RefCell<Option<Rc<Node>>>,
    weak: RefCell<Option<Weak<Node>>>,
    /// two guards obtained while the thread's handle was alive, dropped by the destructor
    parked: RefCell<Vec<circ::Guard>>,
}

impl TlsObj {
    const fn new() -> TlsObj {
        TlsObj {
            action: Cell::new(-1),
            idbase: Cell::new(0),
            world: Cell::new(None),
            rc: RefCell::new(None),
            weak: RefCell::new(None),
            parked: RefCell::new(Vec::new()),
        }
    }
    fn arm(&self, c: &Ctx, w: &'static World, action: i64, idbase: u32, chain: u32) {
        self.action.set(action);
        self.idbase.set(idbase);
        self.world.set(Some(w));
        match action {
            4 => *self.rc.borrow_mut() = Some(c.new_node(idbase + 40)),
            6 => {
                // a weak to an object kept alive by a root
                let g = c.pin();
                let x = c.new_node(idbase + 60);
                let wk = c.downgrade(&x);
                c.store(&w.roots[2], x, &g);
                c.unpin(g);
                *self.weak.borrow_mut() = Some(wk);
            }
            9 => {
                // two guards of the thread's own participant, parked until the destructor
                let mut v = self.parked.borrow_mut();
                v.push(circ::cs());
                v.push(circ::cs());
                let g = c.pin();
                let x = c.new_node(idbase + 90);
                c.store(&w.roots[0], x, &g);
                c.unpin(g);
            }
            8 => {
                let g = c.pin();
                let mut head = c.new_node(idbase + 8000);
                for i in 1..chain {
                    let nd = c.new_node(idbase + 8000 + i);
                    c.store(&c.node(&nd).next[0], head, &g);
                    head = nd;
                }
                c.unpin(g);
                *self.rc.borrow_mut() = Some(head);
            }
            _ => {}
        }
    }
}

impl Drop for TlsObj {
    fn drop(&mut self) {
        let action = self.action.get();
        let Some(w) = self.world.get() else { return };
        if action < 0 || crate::sched::tid() == crate::sched::NONE {
            return;
        }
        let c = Ctx::new();
        let idbase = self.idbase.get();
        mon().cover("tls-destructor-ran");
        match action {
            0 => {
                let g = c.pin();
                c.unpin(g);
            }
            1 => c.round(),
            2 => {
                let g1 = c.pin();
                let g2 = c.pin();
                c.unpin(g1);
                c.unpin(g2);
            }
            3 => {
                let r = c.new_node(idbase + 30);
                c.deref(&r);
                c.drop_rc(r);
            }
            4 | 8 => {
                if let Some(r) = self.rc.borrow_mut().take() {
                    c.deref(&r);
                    c.drop_rc(r);
                }
                c.rounds(2);
            }
            5 => {
                let g = c.pin();
                let r = c.new_node(idbase + 50);
                c.store(&w.roots[1], r, &g);
                let s = c.load(&w.roots[1], &g);
                c.sderef(s);
                c.unpin(g);
            }
            6 => {
                if let Some(wk) = self.weak.borrow_mut().take() {
                    if let Some(r) = c.upgrade(&wk) {
                        c.deref(&r);
                        c.drop_rc(r);
                    }
                    c.wdrop(wk);
                }
            }
            9 => {
                let mut v = self.parked.borrow_mut();
                if v.len() == 2 {
                    let g2 = v.pop().unwrap();
                    let g1 = v.pop().unwrap();
                    let before = circ::verif::ebr::guard_local_state(&g1).unwrap();
                    let addr = before.addr;
                    drop(g1);
                    // the other guard is still alive: the thread must still be a registered,
                    // pinned participant, and what it loads now must be protected
                    let st = circ::verif::ebr::guard_local_state(&g2).unwrap();
                    if !st.pinned || st.guard_count + 1 != before.guard_count || !mon().locals.contains_key(&addr) {
                        mon().violate(
                            "C20",
                            "guard-lost-protection",
                            format!(
                                "after dropping one of several guards in a destructor (handle_count {}) the remaining guard's participant is pinned={} guard_count={} (was {}) registered={}",
                                before.handle_count,
                                st.pinned,
                                st.guard_count,
                                before.guard_count,
                                mon().locals.contains_key(&addr)
                            ),
                        );
                    }
                    let tg = c.adopt_guard(g2);
                    let s = c.load(&w.roots[0], &tg);
                    c.sderef(s);
                    c.sderef(s);
                    c.unpin(tg);
                }
            }
            _ => {
                let mut g = c.pin();
                c.reactivate(&mut g);
                let i = mon().op_begin(c.t, "reactivate_after", [0; 4]);
                mon().guard_end(c.t, g.gid);
                mon().cs_restart_begin(c.t);
                g.g.reactivate_after(|| {});
                mon().cs_restart_end(c.t);
                mon().op_end(i, [0; 4]);
                c.unpin(g);
            }
        }
    }
}

thread_local! {
    static OBJ_A: TlsObj = const { TlsObj::new() };
    static OBJ_B: TlsObj = const { TlsObj::new() };
}

fn body(f: impl FnOnce(&Ctx, &'static World) + Send + 'static) -> Body {
    Box::new(move |w| {
        let c = Ctx::new();
        f(&c, w)
    })
}

fn destructor(p: &Params) -> Program {
    // case -> (order 0..4, action a, action b or none)
    let mut k = p.get("case", 0);
    let order = k % 4;
    k /= 4;
    let a = k % ACTIONS;
    k /= ACTIONS;
    let b = k % (ACTIONS + 1) - 1;
    let peer = p.get("peer", 0) != 0;
    let chain = p.get("chain", 1500) as u32;
    let mut threads: Vec<Body> = vec![body(move |c, w| {
        // order 0: A, B, HANDLE   1: HANDLE, A, B   2: A, B, handle never touched   3: A, HANDLE, B
        let arm_a = |c: &Ctx| OBJ_A.with(|o| o.arm(c, w, a, 0, chain));
        let arm_b = |c: &Ctx| {
            if b >= 0 {
                OBJ_B.with(|o| o.arm(c, w, b, 100_000, chain))
            }
        };
        // Arming may itself use the library (it builds what the destructor will release); where
        // the handle must stay untouched, only actions that need no preparation are armed.
        let needs_prep = |x: i64| matches!(x, 4 | 6 | 8 | 9);
        match order {
            0 => {
                if needs_prep(a) || needs_prep(b) {
                    // preparation touches the handle first: this is order 1 then
                    mon().cover("order-degenerate");
                }
                arm_a(c);
                arm_b(c);
                c.round();
            }
            1 => {
                c.round();
                arm_a(c);
                arm_b(c);
            }
            2 => {
                if needs_prep(a) || needs_prep(b) {
                    mon().cover("order-degenerate");
                }
                arm_a(c);
                arm_b(c);
            }
            _ => {
                arm_a(c);
                c.round();
                arm_b(c);
            }
        }
    })];
    if peer {
        threads.push(body(|c, _| c.rounds(3)));
    }
    Program {
        e0: p.get("e0", 0) as usize,
        classes: p.get("classes", 0) as u8,
        threads,
        claim: Some("C20"),
        finish: Some(Box::new(|m| {
            if !m.locals.is_empty() {
                m.violate(
                    "C20",
                    "participant-leaked",
                    format!("{} participant(s) still registered after every thread has exited", m.locals.len()),
                );
            }
        })),
        stack: 4 << 20,
        drain_max: 60,
        ..Default::default()
    }
}

pub fn cases() -> i64 {
    4 * ACTIONS * (ACTIONS + 1)
}
