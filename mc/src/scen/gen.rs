//! Generated program families: *every* pair of short programs over a small alphabet, on a small
//! fixed world, each explored under every schedule up to the preemption bound (thorough tier).
//! Operations whose precondition does not hold (empty slot, null snapshot) are skipped, so every
//! index is a well-formed program.

use circ::verif as cv;
use circ::verif::ebr::LocalHandle;
use circ::{Rc, Weak};

use crate::exec::{Body, Params, Program};
use crate::monitor::mon;
use crate::scen::ScenarioDef;
use crate::world::{Ctx, World};

pub static SCENARIOS: &[ScenarioDef] = &[
    ScenarioDef {
        name: "gen/rc",
        about: "every pair of programs of <= k operations per thread over a 12-letter alphabet on a world root -> x -> y with weak pointers, plus a thread running rounds",
        build: gen_rc,
    },
    ScenarioDef {
        name: "gen/reader",
        about: "a reader that runs every sequence of <= k letters {load, deref, flush, two decrements, counted, load child, reactivate} inside ONE critical section against a mutator running every sequence of <= k letters {unlink, link fresh, swap out and drop, round, drop held}, plus two threads running one round each",
        build: gen_reader,
    },
    ScenarioDef {
        name: "gen/weak",
        about: "every pair of programs of <= k operations per thread over a 12-letter weak-pointer alphabet (AtomicWeak, WeakSnapshot::counted/upgrade, Weak clone/drop/upgrade) from four lifecycle states of the object, plus a thread running rounds",
        build: gen_weak,
    },
    ScenarioDef {
        name: "gen/ebr",
        about: "every pair of well-formed programs of <= k operations over {pin, unpin, defer, flush, mark} on a private collector, plus a thread running rounds",
        build: gen_ebr,
    },
];

pub const RC_ALPHABET: i64 = 12;

pub fn rc_programs(k: usize) -> i64 {
    // sequences of length exactly k (shorter ones are covered by no-op letters being skipped)
    RC_ALPHABET.pow(k as u32)
}

pub fn rc_cases(k1: usize, k2: usize) -> i64 {
    rc_programs(k1) * rc_programs(k2)
}

fn decode(mut idx: i64, k: usize, base: i64) -> Vec<u8> {
    let mut v = vec![];
    for _ in 0..k {
        v.push((idx % base) as u8);
        idx /= base;
    }
    v
}

fn body(f: impl FnOnce(&Ctx, &'static World) + Send + 'static) -> Body {
    Box::new(move |w| {
        let c = Ctx::new();
        f(&c, w)
    })
}

/// Thread `t` owns rc slots 2t, 2t+1 and weak slot t.
fn run_rc_program(c: &Ctx, w: &'static World, t: usize, prog: &[u8]) {
    let (s0, s1) = (2 * t, 2 * t + 1);
    for &op in prog {
        match op {
            0 => {
                if w.rc[s0].is_some() && !w.rc[s1].is_some() {
                    let r = c.clone_rc(w.rc[s0].get());
                    w.rc[s1].put(r);
                }
            }
            1 => {
                if let Some(r) = w.rc[s0].try_take() {
                    c.drop_rc(r);
                }
            }
            2 => {
                // the second share is released with Rc::finalize inside a critical section
                if let Some(r) = w.rc[s1].try_take() {
                    let g = c.pin();
                    c.finalize(r, &g);
                    c.unpin(g);
                }
            }
            3 => {
                if w.weak[t].is_some() && !w.rc[s1].is_some() {
                    if let Some(r) = c.upgrade(w.weak[t].get()) {
                        c.deref(&r);
                        w.rc[s1].put(r);
                    }
                }
            }
            4 => {
                if !w.rc[s1].is_some() {
                    let g = c.pin();
                    let s = c.load(&w.roots[0], &g);
                    if !s.s.is_null() {
                        let r = c.counted(s);
                        w.rc[s1].put(r);
                    }
                    c.unpin(g);
                }
            }
            5 => {
                let g = c.pin();
                let s = c.load(&w.roots[0], &g);
                c.sderef(s);
                c.sderef(s);
                c.unpin(g);
            }
            6 => {
                let g = c.pin();
                c.store(&w.roots[0], Rc::null(), &g);
                c.unpin(g);
            }
            7 => {
                if let Some(r) = w.rc[s1].try_take() {
                    let g = c.pin();
                    c.store(&w.roots[0], r, &g);
                    c.unpin(g);
                }
            }
            8 => {
                if !w.rc[s1].is_some() {
                    let r = c.swap(&w.roots[0], Rc::null());
                    if !r.is_null() {
                        w.rc[s1].put(r);
                    }
                }
            }
            9 => c.round(),
            10 => {
                let g = c.pin();
                let ws = c.wload(&w.wroots[0], &g);
                if let Some(s) = c.ws_upgrade(ws) {
                    c.sderef(s);
                    c.sderef(s);
                }
                c.unpin(g);
            }
            _ => {
                let g = c.pin();
                let s = c.load(&w.roots[0], &g);
                if !s.s.is_null() {
                    let s2 = c.load(&c.snode(s).next[0], &g);
                    c.sderef(s2);
                    c.sderef(s2);
                }
                c.unpin(g);
            }
        }
    }
}

fn gen_rc(p: &Params) -> Program {
    let k1 = p.get("k1", 2) as usize;
    let k2 = p.get("k2", 2) as usize;
    let case = p.get("case", 0);
    let p1 = decode(case % rc_programs(k1), k1, RC_ALPHABET);
    let p2 = decode(case / rc_programs(k1), k2, RC_ALPHABET);
    // init 0: root -> x -> y, both threads hold a Weak to y (a cascade child), thread 0 an Rc to x
    // init 1: root -> x, both threads hold a Weak to x, thread 1 an Rc to x
    // init 2: x at count 0 with a pending attempt, weak pointers to it
    // init 3: root -> x <- p with p's cascade pending, weak pointers to x
    let init = p.get("init", 0);
    let pre = p.get("pre", 0) as usize;
    Program {
        e0: p.get("e0", 0) as usize,
        classes: p.get("classes", crate::sched::RC as i64) as u8,
        claim: crate::exec::claim_of(p),
        setup: Some(body(move |c, w| {
            let g = c.pin();
            let x = c.new_node(1);
            match init {
                0 => {
                    let y = c.new_node(2);
                    let wy = c.downgrade(&y);
                    w.weak[0].put(c.wclone(&wy));
                    w.weak[1].put(c.wclone(&wy));
                    c.wstore(&w.wroots[0], wy, &g);
                    c.store(&c.node(&x).next[0], y, &g);
                    w.rc[0].put(c.clone_rc(&x));
                    c.store(&w.roots[0], x, &g);
                    c.unpin(g);
                    c.rounds(pre);
                }
                1 => {
                    let wx = c.downgrade(&x);
                    w.weak[0].put(c.wclone(&wx));
                    w.weak[1].put(c.wclone(&wx));
                    c.wstore(&w.wroots[0], wx, &g);
                    w.rc[2].put(c.clone_rc(&x));
                    c.store(&w.roots[0], x, &g);
                    c.unpin(g);
                    c.rounds(pre);
                }
                2 => {
                    // x at count 0 with a destruction attempt `pre` rounds old; root -> z
                    let wx = c.downgrade(&x);
                    w.weak[0].put(c.wclone(&wx));
                    w.weak[1].put(c.wclone(&wx));
                    c.wstore(&w.wroots[0], wx, &g);
                    let z = c.new_node(3);
                    c.store(&w.roots[0], z, &g);
                    c.unpin(g);
                    c.rounds(3);
                    c.drop_rc(x);
                    c.rounds(pre);
                }
                _ => {
                    // p -> x and root -> x; p was unlinked `pre` rounds ago (its cascade is about
                    // to reach x); weak pointers to x
                    let p = c.new_node(4);
                    let wx = c.downgrade(&x);
                    w.weak[0].put(c.wclone(&wx));
                    w.weak[1].put(c.wclone(&wx));
                    c.wstore(&w.wroots[0], wx, &g);
                    c.store(&c.node(&p).next[0], c.clone_rc(&x), &g);
                    c.store(&w.roots[0], x, &g);
                    c.unpin(g);
                    c.rounds(4);
                    c.drop_rc(p);
                    c.rounds(pre);
                }
            }
        })),
        threads: vec![
            body(move |c, w| run_rc_program(c, w, 0, &p1)),
            body(move |c, w| run_rc_program(c, w, 1, &p2)),
            body(|c, _| c.rounds(2)),
        ],
        post: Some(body(|c, w| {
            c.rounds(6);
            for i in 0..4 {
                if w.rc[i].is_some() {
                    c.deref(w.rc[i].get());
                }
            }
        })),
        ..Default::default()
    }
}

// ------------------------------------------------------------------------------------ gen/reader

pub const READER_LETTERS: i64 = 7;
pub const MUTATOR_LETTERS: i64 = 5;

pub fn reader_cases(k1: usize, k2: usize) -> i64 {
    READER_LETTERS.pow(k1 as u32) * MUTATOR_LETTERS.pow(k2 as u32)
}

fn gen_reader(p: &Params) -> Program {
    let k1 = p.get("k1", 2) as usize;
    let k2 = p.get("k2", 2) as usize;
    let case = p.get("case", 0);
    let nr = READER_LETTERS.pow(k1 as u32);
    let p1 = decode(case % nr, k1, READER_LETTERS);
    let p2 = decode(case / nr, k2, MUTATOR_LETTERS);
    // init 0: root -> x -> y (links aged); 1: root -> x <- p, p's cascade `pre` rounds old
    let init = p.get("init", 0);
    let pre = p.get("pre", 2) as usize;
    Program {
        e0: p.get("e0", 0) as usize,
        classes: p.get("classes", crate::sched::RC as i64) as u8,
        claim: crate::exec::claim_of(p),
        // two decrements stand for the usual 64 between two automatic flushes
        manual_interval: 2,
        setup: Some(body(move |c, w| {
            let g = c.pin();
            let x = c.new_node(1);
            if init == 0 {
                let y = c.new_node(2);
                c.store(&c.node(&x).next[0], y, &g);
                c.store(&w.roots[0], x, &g);
                c.unpin(g);
                c.rounds(4);
            } else {
                let pnode = c.new_node(4);
                c.store(&c.node(&pnode).next[0], c.clone_rc(&x), &g);
                c.store(&w.roots[0], x, &g);
                c.unpin(g);
                c.rounds(4);
                c.drop_rc(pnode);
                c.rounds(pre);
            }
            w.rc[4].put(c.new_node(9));
            w.rc[5].put(c.new_node(7));
        })),
        threads: vec![
            // the reader: one critical section
            body(move |c, w| {
                let mut g = c.pin();
                let mut snap: Option<crate::world::TS> = None;
                // SAFETY of the lifetime games: `snap` never outlives `g`; after a reactivation
                // it is forgotten (the API enforces the same with `&mut self`)
                for op in p1 {
                    match op {
                        0 => {
                            let s = c.load(&w.roots[0], &g);
                            snap = Some(unsafe { std::mem::transmute::<crate::world::TS<'_>, crate::world::TS<'static>>(s) });
                        }
                        1 => {
                            if let Some(s) = snap {
                                c.sderef(s);
                            }
                        }
                        2 => c.flush(&g),
                        3 => {
                            let y = w.rc[4].get();
                            for _ in 0..2 {
                                let cl = c.clone_rc(y);
                                c.drop_rc(cl);
                            }
                        }
                        4 => {
                            if let Some(s) = snap {
                                if !s.s.is_null() && !w.rc[0].is_some() {
                                    let r = c.counted(s);
                                    w.rc[0].put(r);
                                }
                            }
                        }
                        5 => {
                            if let Some(s) = snap {
                                if !s.s.is_null() {
                                    let s2 = c.load(&c.snode(s).next[0], &g);
                                    c.sderef(s2);
                                    snap = Some(unsafe { std::mem::transmute::<crate::world::TS<'_>, crate::world::TS<'static>>(s2) });
                                }
                            }
                        }
                        _ => {
                            snap = None;
                            c.reactivate(&mut g);
                        }
                    }
                }
                if let Some(s) = snap {
                    c.sderef(s);
                }
                c.unpin(g);
            }),
            // the mutator
            body(move |c, w| {
                for op in p2 {
                    match op {
                        0 => {
                            let g = c.pin();
                            c.store(&w.roots[0], Rc::null(), &g);
                            c.unpin(g);
                        }
                        1 => {
                            if let Some(n) = w.rc[5].try_take() {
                                let g = c.pin();
                                c.store(&w.roots[0], n, &g);
                                c.unpin(g);
                            }
                        }
                        2 => {
                            let old = c.swap(&w.roots[0], Rc::null());
                            c.drop_rc(old);
                        }
                        3 => c.round(),
                        _ => {
                            if let Some(r) = w.rc[0].try_take() {
                                c.drop_rc(r);
                            }
                        }
                    }
                }
            }),
            body(|c, _| c.round()),
            body(|c, _| c.round()),
        ],
        post: Some(body(|c, w| {
            c.rounds(6);
            if w.rc[0].is_some() {
                c.deref(w.rc[0].get());
            }
        })),
        ..Default::default()
    }
}

// ------------------------------------------------------------------------------------ gen/weak

pub const WEAK_ALPHABET: i64 = 12;

pub fn weak_cases(k1: usize, k2: usize) -> i64 {
    WEAK_ALPHABET.pow((k1 + k2) as u32)
}

/// Thread `t` owns weak slots 2t (a Weak it holds from the start) and 2t+1 (scratch), rc slot t.
fn run_weak_program(c: &Ctx, w: &'static World, t: usize, prog: &[u8]) {
    let (w0, w1) = (2 * t, 2 * t + 1);
    for &op in prog {
        match op {
            // re-create a Weak from the cell's content inside a critical section
            0 => {
                if !w.weak[w1].is_some() {
                    let g = c.pin();
                    let ws = c.wload(&w.wroots[0], &g);
                    if !ws.s.is_null() {
                        let nw = c.ws_counted(ws);
                        w.weak[w1].put(nw);
                    }
                    c.unpin(g);
                }
            }
            // the same, dropping it again before leaving the critical section
            1 => {
                let g = c.pin();
                let ws = c.wload(&w.wroots[0], &g);
                if !ws.s.is_null() {
                    let nw = c.ws_counted(ws);
                    c.wdrop(nw);
                }
                c.unpin(g);
            }
            2 => {
                if let Some(x) = w.weak[w1].try_take() {
                    c.wdrop(x);
                }
            }
            3 => {
                if let Some(x) = w.weak[w0].try_take() {
                    c.wdrop(x);
                }
            }
            4 => {
                let g = c.pin();
                c.wstore(&w.wroots[0], Weak::null(), &g);
                c.unpin(g);
            }
            5 => {
                if let Some(x) = w.weak[w1].try_take() {
                    let g = c.pin();
                    c.wstore(&w.wroots[0], x, &g);
                    c.unpin(g);
                }
            }
            6 => {
                if w.weak[w0].is_some() {
                    if let Some(r) = c.upgrade(w.weak[w0].get()) {
                        c.deref(&r);
                        c.drop_rc(r);
                    }
                }
            }
            7 => {
                if w.weak[w0].is_some() && !w.weak[w1].is_some() {
                    let x = c.wclone(w.weak[w0].get());
                    w.weak[w1].put(x);
                }
            }
            8 => {
                if let Some(r) = w.rc[t].try_take() {
                    c.drop_rc(r);
                }
            }
            9 => c.round(),
            10 => {
                let g = c.pin();
                let ws = c.wload(&w.wroots[0], &g);
                if let Some(s) = c.ws_upgrade(ws) {
                    c.sderef(s);
                    c.sderef(s);
                }
                c.unpin(g);
            }
            _ => {
                let x = c.wswap(&w.wroots[0], Weak::null());
                c.wdrop(x);
            }
        }
    }
}

fn gen_weak(p: &Params) -> Program {
    let k1 = p.get("k1", 2) as usize;
    let k2 = p.get("k2", 2) as usize;
    let case = p.get("case", 0);
    let p1 = decode(case % WEAK_ALPHABET.pow(k1 as u32), k1, WEAK_ALPHABET);
    let p2 = decode(case / WEAK_ALPHABET.pow(k1 as u32), k2, WEAK_ALPHABET);
    // init 0: x alive (thread 1 holds an Rc), cell and both threads hold Weaks
    // init 1: x destructed long ago; the cell holds the ONLY Weak
    // init 2: x at count 0, attempt `pre` rounds old; cell and thread 0 hold Weaks
    // init 3: x destructed long ago; cell and thread 0 hold Weaks
    // init 4: x at count 0, attempt `pre` rounds old; the cell holds the ONLY Weak
    let init = p.get("init", 0);
    let pre = p.get("pre", 2) as usize;
    Program {
        e0: p.get("e0", 0) as usize,
        classes: p.get("classes", crate::sched::RC as i64) as u8,
        claim: crate::exec::claim_of(p),
        setup: Some(body(move |c, w| {
            let x = c.new_node(1);
            let wx = c.downgrade(&x);
            let g = c.pin();
            c.wstore(&w.wroots[0], c.wclone(&wx), &g);
            c.unpin(g);
            match init {
                0 => {
                    w.weak[0].put(c.wclone(&wx));
                    w.weak[2].put(c.wclone(&wx));
                    w.rc[1].put(x);
                    c.wdrop(wx);
                }
                1 => {
                    c.wdrop(wx);
                    c.drop_rc(x);
                    c.rounds(8);
                }
                2 => {
                    w.weak[0].put(wx);
                    c.drop_rc(x);
                    c.rounds(pre);
                }
                4 => {
                    // as 2, but the cell holds the only Weak
                    c.wdrop(wx);
                    c.drop_rc(x);
                    c.rounds(pre);
                }
                _ => {
                    w.weak[0].put(wx);
                    c.drop_rc(x);
                    c.rounds(8);
                }
            }
        })),
        threads: vec![
            body(move |c, w| run_weak_program(c, w, 0, &p1)),
            body(move |c, w| run_weak_program(c, w, 1, &p2)),
            body(|c, _| c.rounds(3)),
        ],
        post: Some(body(|c, w| {
            c.rounds(6);
            // whatever Weak is still held must still be usable
            for i in 0..4 {
                if w.weak[i].is_some() {
                    let x = c.wclone(w.weak[i].get());
                    if let Some(r) = c.upgrade(&x) {
                        c.deref(&r);
                        c.drop_rc(r);
                    }
                    c.wdrop(x);
                }
            }
        })),
        ..Default::default()
    }
}

// ------------------------------------------------------------------------------------ gen/ebr

/// letters: 0 pin (at most two guards), 1 unpin (the most recent guard), 2 defer (needs a guard),
/// 3 flush (needs a guard), 4 mark (needs a guard)
pub fn ebr_programs(k: usize) -> &'static Vec<Vec<u8>> {
    use std::sync::{Mutex, OnceLock};
    static S: OnceLock<Mutex<std::collections::HashMap<usize, &'static Vec<Vec<u8>>>>> = OnceLock::new();
    let mut map = S.get_or_init(Default::default).lock().unwrap();
    if let Some(v) = map.get(&k) {
        return v;
    }
    let mut out = vec![];
    fn rec(seq: &mut Vec<u8>, guards: usize, k: usize, out: &mut Vec<Vec<u8>>) {
        if seq.len() == k {
            // complete programs only; shorter ones are prefixes padded by marks, which would be
            // duplicates, so only full-length sequences count
            out.push(seq.clone());
            return;
        }
        if guards < 2 {
            seq.push(0);
            rec(seq, guards + 1, k, out);
            seq.pop();
        }
        if guards > 0 {
            for l in 1..=4u8 {
                seq.push(l);
                rec(seq, if l == 1 { guards - 1 } else { guards }, k, out);
                seq.pop();
            }
        }
    }
    rec(&mut vec![], 0, k, &mut out);
    // a program must defer or pin at least once to matter: all of them pin first by construction
    let leaked: &'static Vec<Vec<u8>> = Box::leak(Box::new(out));
    map.insert(k, leaked);
    leaked
}

pub fn ebr_cases(k: usize) -> i64 {
    let n = ebr_programs(k).len() as i64;
    n * n
}

fn gen_ebr(p: &Params) -> Program {
    use crate::scen::ebr::{ebody_pub as ebody, finish_all_ran_once_pub, survivor_pub, ECtx, EWorld, SendHandle, EG};
    let e0 = p.get("e0", 0) as usize;
    let k = p.get("k", 4) as usize;
    let progs = ebr_programs(k);
    let n = progs.len() as i64;
    let case = p.get("case", 0);
    let p1 = progs[(case % n) as usize].clone();
    let p2 = progs[(case / n) as usize].clone();
    let ew = EWorld::new_pub(e0);
    let run = |prog: Vec<u8>, slot: usize| {
        ebody(&ew, move |c: &ECtx, ew: &EWorld| {
            let h: LocalHandle = ew.handles[slot].take().0;
            let mut guards: Vec<EG> = vec![];
            for op in prog {
                match op {
                    0 => guards.push(c.pin(&h)),
                    1 => {
                        let g = guards.pop().unwrap();
                        c.unpin(g);
                    }
                    2 => {
                        c.defer(guards.last().unwrap());
                    }
                    3 => c.flush(guards.last().unwrap()),
                    _ => c.mark(),
                }
            }
            while let Some(g) = guards.pop() {
                c.unpin(g);
            }
            drop(h);
        })
    };
    let t1 = run(p1, 0);
    let t2 = run(p2, 1);
    let t3 = ebody(&ew, move |c: &ECtx, ew: &EWorld| {
        let h = ew.handles[2].take().0;
        c.rounds(&h, 3);
        drop(h);
    });
    let ew2 = ew.clone();
    Program {
        e0,
        setup: Some(ebody(&ew, move |_, ew: &EWorld| {
            ew.attach_pub(e0);
            for i in 0..3 {
                ew.handles[i].put(SendHandle(ew.collector.register()));
            }
            let _ = mon();
            let _ = cv::global_epoch_addr;
        })),
        threads: vec![t1, t2, t3],
        post: Some(survivor_pub(&ew2, 40, true)),
        finish: Some(finish_all_ran_once_pub()),
        ..crate::scen::ebr::ebase_pub(p, crate::sched::EBR)
    }
}
