//! Scenarios on the epoch collector itself (private collectors, queue, registry list).

use crate::monitor::Monitor;
use crate::scen::ScenarioDef;

pub static SCENARIOS: &[ScenarioDef] = &[];

pub fn on_list_finalize(_m: &mut Monitor, _id: usize) {}
