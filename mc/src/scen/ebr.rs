//! Scenarios on the epoch collector itself: private collectors, deferred closures, nested guards,
//! the garbage queue and the registry list (C13-C18).

use std::collections::VecDeque;
use std::sync::{Arc, OnceLock};

use circ::verif as cv;
use circ::verif::ebr::{Collector, LocalHandle, VElemRef, VList, VQueue};
use circ::Guard;

use crate::exec::{Body, Params, Program};
use crate::lin;
use crate::monitor::{mon, try_mon, Monitor, OpRec};
use crate::scen::ScenarioDef;
use crate::sched;
use crate::world::Slot;

macro_rules! scen {
    ($name:expr, $f:ident, $about:expr) => {
        ScenarioDef {
            name: $name,
            about: $about,
            build: $f,
        }
    };
}

pub static SCENARIOS: &[ScenarioDef] = &[
    scen!("ebr/sections", sections, "C13/C14: readers, deferrers, advancers, nested guards, registration and reactivation on a private collector"),
    scen!("ebr/exit", exit_with_garbage, "C15: a thread defers k functions and leaves at every position, in four ways, while another runs rounds"),
    scen!("ebr/payload", payload, "C15: closure size x alignment x bag capacity x fill level x way of leaving"),
    scen!("ebr/guards", guards, "C16: every short sequence of pin / drop / reactivate / reactivate_after on up to three guards"),
    scen!("ebr/queue", queue, "C17: concurrent push / try_pop / try_pop_if on the collector's queue"),
    scen!("ebr/list", list, "C18: concurrent insert / delete / traverse on the collector's registry list"),
];

pub struct SendHandle(pub LocalHandle);
unsafe impl Send for SendHandle {}

/// A guard obtained in one phase and dropped in a later one (the participant is not tied to the
/// OS thread that runs the phase).
pub struct SendGuard(pub Guard);
unsafe impl Send for SendGuard {}

pub struct EWorld {
    pub collector: Collector,
    pub handles: [Slot<SendHandle>; 8],
    pub parked: Slot<SendGuard>,
    pub queue: VQueue<QItem>,
    pub list: VList,
    pub elems: [Slot<VElemRef>; 8],
}

impl EWorld {
    fn new(e0: usize) -> Arc<EWorld> {
        let collector = Collector::new();
        cv::ebr::set_initial_epoch(&collector, e0);
        Arc::new(EWorld {
            collector,
            handles: Default::default(),
            parked: Default::default(),
            queue: VQueue::new(),
            list: VList::new(),
            elems: Default::default(),
        })
    }
    /// Called first thing in the setup phase (the monitor exists by then).
    fn attach(&self, e0: usize) {
        let m = mon();
        m.global_epoch_addr = cv::ebr::global_epoch_addr(&self.collector);
        m.global_epoch = Some(e0);
    }
}

pub struct EG {
    pub g: Guard,
}

pub struct ECtx {
    pub t: usize,
}

fn ran(id: usize) {
    if let Some(m) = try_mon() {
        m.closure_ran(id);
    }
}

impl ECtx {
    pub fn new() -> ECtx {
        ECtx { t: sched::tid() }
    }
    pub fn pin(&self, h: &LocalHandle) -> EG {
        let i = mon().op_begin(self.t, "epin", [0; 4]);
        let g = h.pin();
        let m = mon();
        m.cs_enter(self.t);
        m.op_end(i, [0; 4]);
        EG { g }
    }
    pub fn unpin(&self, g: EG) {
        let m = mon();
        let i = m.op_begin(self.t, "eunpin", [0; 4]);
        m.cs_leave(self.t);
        drop(g.g);
        mon().op_end(i, [0; 4]);
    }
    pub fn defer(&self, g: &EG) -> usize {
        let m = mon();
        let i = m.op_begin(self.t, "defer", [0; 4]);
        let id = m.closure_deferred(self.t);
        unsafe { cv::ebr::defer(&g.g, move || ran(id)) };
        mon().op_end(i, [id as i64, 0, 0, 0]);
        id
    }
    /// Defers a closure that itself defers `inner` further closures when it runs.
    pub fn defer_nesting(&self, g: &EG, h: *const LocalHandle, inner: usize) -> usize {
        let m = mon();
        let i = m.op_begin(self.t, "defer-nesting", [inner as i64, 0, 0, 0]);
        let id = m.closure_deferred(self.t);
        let hp = h as usize;
        unsafe {
            cv::ebr::defer(&g.g, move || {
                ran(id);
                if try_mon().is_none() {
                    return;
                }
                // runs during a collection of whichever thread popped the bag: pin that thread's
                // own participant is not available here, so use the deferring thread's handle only
                // if this is the same thread; otherwise register a temporary participant
                let _ = hp;
                let t = sched::tid();
                if t == sched::NONE {
                    return;
                }
                let c = NESTING_COLLECTOR.with(|c| c.borrow().clone());
                if let Some(c) = c {
                    let h2 = c.register();
                    let g2 = h2.pin();
                    for _ in 0..inner {
                        let id2 = mon().closure_deferred(t);
                        cv::ebr::defer(&g2, move || ran(id2));
                    }
                    drop(g2);
                    drop(h2);
                }
            })
        };
        mon().op_end(i, [id as i64, 0, 0, 0]);
        id
    }
    pub fn flush(&self, g: &EG) {
        let i = mon().op_begin(self.t, "eflush", [0; 4]);
        g.g.flush();
        mon().op_end(i, [0; 4]);
    }
    pub fn round(&self, h: &LocalHandle) {
        let g = self.pin(h);
        self.flush(&g);
        self.unpin(g);
    }
    pub fn rounds(&self, h: &LocalHandle, k: usize) {
        for _ in 0..k {
            self.round(h);
        }
    }
    /// A step of the program inside its critical section (a scheduling point).
    pub fn mark(&self) {
        let i = mon().op_begin(self.t, "mark", [0; 4]);
        sched::point(sched::CLASS_DEREF, 0);
        mon().op_end(i, [0; 4]);
    }
    pub fn reactivate(&self, g: &mut EG) {
        let m = mon();
        let i = m.op_begin(self.t, "ereactivate", [0; 4]);
        m.cs_restart_begin(self.t);
        g.g.reactivate();
        let m = mon();
        m.cs_restart_end(self.t);
        m.op_end(i, [0; 4]);
    }
    pub fn reactivate_after(&self, g: &mut EG, f: impl FnOnce()) {
        let m = mon();
        let i = m.op_begin(self.t, "ereactivate_after", [0; 4]);
        m.cs_restart_begin(self.t);
        g.g.reactivate_after(f);
        let m = mon();
        m.cs_restart_end(self.t);
        m.op_end(i, [0; 4]);
    }
}

thread_local! {
    /// the private collector, for closures that need to pin from inside a collection
    static NESTING_COLLECTOR: std::cell::RefCell<Option<Collector>> = const { std::cell::RefCell::new(None) };
}

fn ebody(ew: &Arc<EWorld>, f: impl FnOnce(&ECtx, &EWorld) + Send + 'static) -> Body {
    let ew = ew.clone();
    Box::new(move |_| {
        let c = ECtx::new();
        NESTING_COLLECTOR.with(|x| *x.borrow_mut() = Some(ew.collector.clone()));
        f(&c, &ew);
        NESTING_COLLECTOR.with(|x| *x.borrow_mut() = None);
        drop(ew);
    })
}

fn ebase(p: &Params, classes: u8) -> Program {
    Program {
        e0: 0,
        classes: p.get("classes", classes as i64) as u8,
        bag_cap: p.get("bag", 64) as usize,
        quarantine: false,
        check_quiescent: false,
        state_points: false,
        rc_world: false,
        claim: crate::exec::claim_of(p),
        ..Default::default()
    }
}

/// Survivor: rounds until every deferred function has run (at most `max`), then the last
/// references to the collector go away.
/// Parameter `nested` of any EBR scenario (set per execution by `exec::unclaim`): the surviving
/// thread has held nested guards before it starts its rounds.
pub static SURVIVOR_NESTS: std::sync::atomic::AtomicBool = std::sync::atomic::AtomicBool::new(false);

fn survivor(ew: &Arc<EWorld>, max: usize, rounds_before_check: bool) -> Body {
    ebody(ew, move |c, ew| {
        drop(ew.parked.try_take());
        if rounds_before_check {
            let h = ew.collector.register();
            if SURVIVOR_NESTS.load(std::sync::atomic::Ordering::Relaxed) {
                // the survivor is a thread with a history: it once held two guards at a time
                // and dropped them innermost first and, another time, outermost first
                let a = c.pin(&h);
                let b = c.pin(&h);
                c.unpin(b);
                c.unpin(a);
                let a = c.pin(&h);
                let b = c.pin(&h);
                c.unpin(a);
                c.unpin(b);
            }
            let mut k = 0;
            while k < max && mon().ebr.deferred.iter().any(|d| d.runs == 0) {
                c.round(&h);
                k += 1;
            }
            let m = mon();
            m.mix_outcome(0x700 ^ k as u64);
            if let Some((id, _)) = m.ebr.deferred.iter().enumerate().find(|(_, d)| d.runs == 0) {
                m.violate(
                    "C15",
                    "not-run-by-survivor",
                    format!("deferred function {} has not run after {} rounds of a surviving thread with nobody else pinned", id, k),
                );
            }
            drop(h);
        }
        for s in ew.handles.iter() {
            drop(s.try_take());
        }
    })
}

fn finish_all_ran_once() -> Box<dyn FnOnce(&mut Monitor)> {
    Box::new(|m: &mut Monitor| {
        // by now the collector itself has been dropped, which runs whatever was left
        let bad: Vec<(usize, u32)> = m
            .ebr
            .deferred
            .iter()
            .enumerate()
            .filter(|(_, d)| d.runs != 1)
            .map(|(i, d)| (i, d.runs))
            .collect();
        if let Some((id, runs)) = bad.first() {
            m.violate(
                "C15",
                if *runs == 0 { "lost" } else { "ran-twice" },
                format!("deferred function {} ran {} time(s) by the time the collector was gone", id, runs),
            );
        }
        if !m.ebr.deferred.is_empty() {
            m.cover("all-closures-accounted");
        }
    })
}

// ------------------------------------------------------------------------------------ C13 / C14

fn sections(p: &Params) -> Program {
    let e0 = p.get("e0", 0) as usize;
    let prog = p.get("prog", 0);
    let ew = EWorld::new(e0);
    let take = |i: usize| move |ew: &EWorld| ew.handles[i].take().0;
    let reader = |i: usize, marks: usize| {
        ebody(&ew, move |c, ew| {
            let h = take(i)(ew);
            let g = c.pin(&h);
            for _ in 0..marks {
                c.mark();
            }
            c.unpin(g);
            drop(h);
        })
    };
    let deferrer = |i: usize, rounds: usize| {
        ebody(&ew, move |c, ew| {
            let h = take(i)(ew);
            let g = c.pin(&h);
            c.defer(&g);
            c.flush(&g);
            c.unpin(g);
            c.rounds(&h, rounds);
            drop(h);
        })
    };
    let advancer = |i: usize, rounds: usize| {
        ebody(&ew, move |c, ew| {
            let h = take(i)(ew);
            c.rounds(&h, rounds);
            drop(h);
        })
    };
    let mut nhandles = 3;
    let mut stale_participant = false;
    let mut lagging_participant = false;
    let mut staged = false;
    let bag_cap = p.get("bag", 64) as usize;
    let threads: Vec<Body> = match prog {
        // 1. reader vs deferrer
        0 => vec![reader(0, 1), deferrer(1, 4)],
        // 2. two deferrers and a long reader
        1 => vec![reader(0, 2), deferrer(1, 3), deferrer(2, 3)],
        // 3. nested guards
        2 => vec![
            ebody(&ew, move |c, ew| {
                let h = take(0)(ew);
                let g1 = c.pin(&h);
                let g2 = c.pin(&h);
                c.unpin(g1);
                c.mark();
                c.unpin(g2);
                drop(h);
            }),
            deferrer(1, 4),
        ],
        // 4. two advancers racing inside try_advance, a third pins in between
        3 => vec![reader(0, 1), deferrer(1, 3), advancer(2, 3)],
        // 5. registration / unregistration while another thread traverses the registry
        4 => {
            nhandles = 2;
            vec![
                ebody(&ew, move |c, ew| {
                    let h = ew.collector.register();
                    let g = c.pin(&h);
                    c.mark();
                    c.unpin(g);
                    drop(h);
                }),
                deferrer(1, 4),
                advancer(0, 2),
            ]
        }
        // 6. reactivation ends and restarts the reader's critical section
        5 => vec![
            ebody(&ew, move |c, ew| {
                let h = take(0)(ew);
                let mut g = c.pin(&h);
                c.mark();
                c.reactivate(&mut g);
                c.mark();
                c.reactivate_after(&mut g, || {});
                c.mark();
                c.unpin(g);
                drop(h);
            }),
            deferrer(1, 5),
        ],
        // 7. (C14) a deferred function that overflows the bag while it runs: the collecting
        //    thread re-pins in the middle of its collection
        6 => vec![
            reader(0, 2),
            ebody(&ew, move |c, ew| {
                let h = take(1)(ew);
                let g = c.pin(&h);
                c.defer_nesting(&g, &h, 3);
                c.flush(&g);
                c.unpin(g);
                c.rounds(&h, 5);
                drop(h);
            }),
        ],
        // 9. a long critical section that itself defers more than 128 functions (every 64th
        //    deferral tries to advance the epoch from inside the section)
        8 => vec![
            ebody(&ew, move |c, ew| {
                let h = take(0)(ew);
                let g = c.pin(&h);
                c.mark();
                for _ in 0..130 {
                    let id = mon().closure_deferred(c.t);
                    unsafe { cv::ebr::defer(&g.g, move || ran(id)) };
                }
                c.mark();
                c.unpin(g);
                drop(h);
            }),
            ebody(&ew, move |c, ew| {
                let h = take(1)(ew);
                let g = c.pin(&h);
                c.defer(&g);
                c.flush(&g);
                c.unpin(g);
                drop(h);
            }),
            advancer(2, 2),
        ],
        // 10. (C14) the registry holds an unlinked-to-be participant and the collecting thread's
        //     bag is full: the traversal inside try_advance() defers the participant's
        //     destruction, which pushes the bag and re-pins the advancer between its read of the
        //     global epoch and its store (run with bag=2)
        9 => {
            stale_participant = true;
            vec![
                ebody(&ew, move |c, ew| {
                    let h = take(0)(ew);
                    let g = c.pin(&h);
                    c.flush(&g);
                    for _ in 0..bag_cap {
                        c.defer(&g);
                    }
                    c.unpin(g);
                    drop(h);
                }),
                advancer(1, 1),
                advancer(2, 1),
            ]
        }
        // 11. (C18) a participant pinned one epoch behind sits at the end of the registry, behind
        //     an exited participant that is still linked; the advancer's traversal stalls when
        //     the entry it has just passed is deleted as well. A stalled traversal has not seen
        //     the lagging participant: the epoch must stay.
        10 => {
            lagging_participant = true;
            vec![
                advancer(0, 1),
                ebody(&ew, move |_, ew| {
                    drop(take(1)(ew));
                }),
            ]
        }
        // 13. (C13) functions that run in successive passes of ONE collection loop (the unpin of
        //     thread 0) and use thread 0's own participant from inside it: the first forces
        //     another pass, the second defers a function and flushes - that bag must carry the
        //     epoch of the moment it is sealed, not the one the outermost guard was pinned in
        //     (the loop re-pins after every pass), or it expires under a reader that pins
        //     during the second pass
        12 => {
            staged = true;
            vec![
                ebody(&ew, move |c, ew| {
                    let h = &ew.handles[0].get().0;
                    let g = c.pin(h);
                    c.flush(&g);
                    c.unpin(g);
                }),
                reader(1, 2),
            ]
        }
        // 14. (C13) reactivating one of two nested guards is a no-op: the outer guard's critical
        //     section goes on, whatever the other participants do meanwhile
        13 => {
            nhandles = 4;
            vec![
            ebody(&ew, move |c, ew| {
                let h = take(0)(ew);
                let g1 = c.pin(&h);
                let mut g2 = c.pin(&h);
                c.mark();
                c.reactivate(&mut g2);
                c.mark();
                c.reactivate(&mut g2);
                c.mark();
                c.unpin(g2);
                c.unpin(g1);
                drop(h);
            }),
            // (one thread per step, so that only thread 0 has to be interrupted: three times)
            deferrer(1, 0),
            advancer(2, 1),
            advancer(3, 1),
        ]
        }
        // 15. (C16, finding #12) a deferred function that runs during thread 0's own collection
        //     takes a guard of thread 0's participant and keeps it (parks it): when the unpin
        //     that ran the collection is over, that guard is alive, so the thread is pinned
        14 => {
            nhandles = 2;
            vec![
                ebody(&ew, move |c, ew| {
                    let h = &ew.handles[0].get().0;
                    let hp = h as *const LocalHandle as usize;
                    let ewp = ew as *const EWorld as usize;
                    let g = c.pin(h);
                    let id = mon().closure_deferred(c.t);
                    unsafe {
                        cv::ebr::defer(&g.g, move || {
                            ran(id);
                            // only on the thread that owns the participant: a handle is not Send
                            if try_mon().is_none() || sched::tid() != 0 {
                                return;
                            }
                            let h = &*(hp as *const LocalHandle);
                            let ew = &*(ewp as *const EWorld);
                            ew.parked.put(SendGuard(h.pin()));
                        });
                    }
                    c.flush(&g);
                    c.unpin(g);
                    let mut rounds = 0;
                    while !ew.parked.is_some() && rounds < 8 {
                        c.round(h);
                        rounds += 1;
                    }
                    if ew.parked.is_some() {
                        mon().cover("guard-kept-by-deferred-function");
                        let st = cv::ebr::local_state(h);
                        if !st.pinned || st.guard_count != 1 {
                            mon().violate(
                                "C16",
                                "kept-guard-not-counted",
                                format!("a guard taken by a deferred function during the thread's own collection is alive, but the participant is pinned={} with guard_count={}", st.pinned, st.guard_count),
                            );
                        } else {
                            drop(ew.parked.take());
                            let st = cv::ebr::local_state(h);
                            if st.pinned || st.guard_count != 0 {
                                mon().violate("C16", "guard-model", format!("after dropping the kept guard: pinned={} guard_count={}", st.pinned, st.guard_count));
                            }
                        }
                    }
                }),
                advancer(1, 3),
            ]
        }
        // 16. (C16, C13) a deferred function that runs during thread 0's own collection works
        //     under a guard of its own (like a destructor that calls `cs()`): while that guard
        //     lives, the participant must stay in the epoch it was pinned in, whatever the
        //     function flushes or defers meanwhile
        15 | 16 => {
            nhandles = if prog == 16 { 5 } else { 2 };
            let mut v = vec![
                ebody(&ew, move |c, ew| {
                    let h = &ew.handles[0].get().0;
                    let hp = h as *const LocalHandle as usize;
                    let g = c.pin(h);
                    let id = mon().closure_deferred(c.t);
                    unsafe {
                        cv::ebr::defer(&g.g, move || {
                            ran(id);
                            // only on the thread that owns the participant: a handle is not Send
                            if try_mon().is_none() || sched::tid() != 0 {
                                return;
                            }
                            let h = &*(hp as *const LocalHandle);
                            let c2 = ECtx::new();
                            let g2 = c2.pin(h);
                            for _ in 0..3 {
                                c2.mark();
                                c2.flush(&g2);
                            }
                            c2.mark();
                            c2.unpin(g2);
                            mon().cover("guard-inside-deferred-function-flushes");
                        });
                    }
                    c.flush(&g);
                    c.unpin(g);
                    let mut rounds = 0;
                    while mon().ebr.deferred[id].runs == 0 && rounds < 8 {
                        c.round(h);
                        rounds += 1;
                    }
                }),
            ];
            if prog == 16 {
                // (C13) one thread per step, so that only thread 0 has to be interrupted - at
                // each of its four marks: a function deferred while the inner guard is alive,
                // then three passes that move the epoch on
                v.push(deferrer(1, 0));
                v.push(advancer(2, 1));
                v.push(advancer(3, 1));
                v.push(advancer(4, 1));
            } else {
                v.push(advancer(1, 4));
            }
            v
        }
        // 12. (C14) a guard that has outlived its handle is reactivated while another participant
        //     advances: the participant must stay registered (and hold the epoch back) for as
        //     long as the guard lives
        11 => vec![
            ebody(&ew, move |c, ew| {
                let h = take(0)(ew);
                let mut g = c.pin(&h);
                drop(h);
                c.reactivate(&mut g);
                c.mark();
                c.mark();
                c.unpin(g);
            }),
            advancer(1, 3),
        ],
        // 8. the handle is dropped while a guard is alive: unregistration happens at unpin
        _ => vec![
            ebody(&ew, move |c, ew| {
                let h = take(0)(ew);
                let g = c.pin(&h);
                c.defer(&g);
                drop(h);
                c.mark();
                c.unpin(g);
            }),
            deferrer(1, 4),
        ],
    };
    let ew2 = ew.clone();
    Program {
        e0,
        setup: Some(ebody(&ew, move |_, ew| {
            ew.attach(e0);
            if staged {
                for i in 0..nhandles {
                    ew.handles[i].put(SendHandle(ew.collector.register()));
                }
                // two functions deferred through thread 0's participant in consecutive epochs
                // (each flush seals the bag, each unpin advances once): sealed at G-2 and G-1
                let c = ECtx::new();
                let h = &ew.handles[0].get().0;
                let hp = h as *const LocalHandle as usize;
                for stage in 0..2 {
                    let g = c.pin(h);
                    let id = mon().closure_deferred(c.t);
                    unsafe {
                        cv::ebr::defer(&g.g, move || {
                            ran(id);
                            // only on the thread that owns the participant: a handle is not Send
                            if try_mon().is_none() || sched::tid() != 0 {
                                return;
                            }
                            let h = &*(hp as *const LocalHandle);
                            let g2 = h.pin();
                            if stage == 1 {
                                let id2 = mon().closure_deferred(sched::tid());
                                cv::ebr::defer(&g2, move || ran(id2));
                            }
                            g2.flush();
                        });
                    }
                    c.flush(&g);
                    c.unpin(g);
                }
            } else if lagging_participant {
                // registry order (newest first): thread 0, thread 1, the exited participant, the
                // lagging one
                let lag = ew.collector.register();
                let g = lag.pin();
                let exited = ew.collector.register();
                ew.handles[1].put(SendHandle(ew.collector.register()));
                let h0 = ew.collector.register();
                {
                    // everybody is registered and nobody has left yet: this traversal unlinks
                    // nothing, and it leaves the pinned participant one epoch behind
                    let g0 = h0.pin();
                    cv::ebr::try_advance(&ew.collector, &g0);
                }
                ew.handles[0].put(SendHandle(h0));
                drop(exited);
                ew.parked.put(SendGuard(g));
                ew.handles[2].put(SendHandle(lag));
            } else if stale_participant {
                // registry order (newest first): thread 0, the stale participant, the others. A
                // traversal by thread 0 passes its own entry before it meets the stale one, which
                // is marked deleted when its handle goes away and unlinked by whoever comes next.
                for i in 1..nhandles {
                    ew.handles[i].put(SendHandle(ew.collector.register()));
                }
                let stale = ew.collector.register();
                ew.handles[0].put(SendHandle(ew.collector.register()));
                drop(stale);
            } else {
                for i in 0..nhandles {
                    ew.handles[i].put(SendHandle(ew.collector.register()));
                }
            }
        })),
        threads,
        post: Some(survivor(&ew2, 40, true)),
        finish: Some(finish_all_ran_once()),
        ..ebase(p, sched::EBR)
    }
}

// ------------------------------------------------------------------------------------ C15 (S)

fn exit_with_garbage(p: &Params) -> Program {
    let e0 = p.get("e0", 0) as usize;
    let k = p.get("k", 3) as usize;
    let j = p.get("j", 1) as usize;
    // 0 flush then exit; 1 exit with the bag unflushed; 2 handle dropped while a guard is alive;
    // 3 as 1, and nobody runs rounds afterwards: the collector is dropped with work pending
    // 4 as 1, after a reactivation of one of two nested guards earlier in the thread's life
    let mode = p.get("mode", 1);
    let ew = EWorld::new(e0);
    let ew2 = ew.clone();
    Program {
        e0,
        setup: Some(ebody(&ew, move |_, ew| {
            ew.attach(e0);
            for i in 0..2 {
                ew.handles[i].put(SendHandle(ew.collector.register()));
            }
        })),
        threads: vec![
            ebody(&ew, move |c, ew| {
                let mut h = Some(ew.handles[0].take().0);
                if mode == 4 {
                    let g1 = c.pin(h.as_ref().unwrap());
                    let mut g2 = c.pin(h.as_ref().unwrap());
                    c.reactivate(&mut g2);
                    c.reactivate_after(&mut g2, || {});
                    c.unpin(g2);
                    c.unpin(g1);
                }
                let g = c.pin(h.as_ref().unwrap());
                let mut g = Some(g);
                for i in 0..=k {
                    if i == j {
                        match mode {
                            0 => {
                                c.flush(g.as_ref().unwrap());
                                c.unpin(g.take().unwrap());
                                drop(h.take());
                            }
                            2 => {
                                drop(h.take());
                                c.mark();
                                c.unpin(g.take().unwrap());
                            }
                            _ => {
                                c.unpin(g.take().unwrap());
                                drop(h.take());
                            }
                        }
                        return;
                    }
                    if i < k {
                        c.defer(g.as_ref().unwrap());
                    }
                }
                c.unpin(g.take().unwrap());
                drop(h.take());
            }),
            ebody(&ew, move |c, ew| {
                let h = ew.handles[1].take().0;
                let g = c.pin(&h);
                c.defer(&g);
                c.unpin(g);
                c.rounds(&h, 3);
                drop(h);
            }),
        ],
        post: Some(survivor(&ew2, 40, mode != 3)),
        finish: Some(finish_all_ran_once()),
        ..ebase(p, sched::EBR)
    }
}

// ------------------------------------------------------------------------------------ C15 (E)

#[derive(Clone, Copy)]
#[repr(align(16))]
#[allow(dead_code)]
struct Al16(u8);
#[derive(Clone, Copy)]
#[repr(align(32))]
#[allow(dead_code)]
struct Al32(u8);
#[derive(Clone, Copy)]
#[repr(align(64))]
#[allow(dead_code)]
struct Al64(u8);

#[repr(C)]
#[derive(Clone, Copy)]
struct Pay<A: Copy, const N: usize> {
    a: [A; 0],
    b: [u8; N],
}

fn pattern(id: usize, i: usize) -> u8 {
    if i == 0 {
        return id as u8;
    }
    (id.wrapping_mul(31).wrapping_add(i.wrapping_mul(7)) & 0xff) as u8 ^ 0x5a
}

/// The closure captures nothing but the payload (so that its size is exactly the payload's:
/// sizes that are not a multiple of the word size matter). The first byte carries the index of
/// the function within its case; a zero-sized payload cannot carry one and is counted in order.
static PAYLOAD_BASE: std::sync::atomic::AtomicUsize = std::sync::atomic::AtomicUsize::new(0);

fn defer_pay<A: Copy + Send + 'static, const N: usize>(g: &Guard, base: usize, k: usize) {
    // the closure must capture nothing but `p`: the base index travels through a static
    PAYLOAD_BASE.store(base, std::sync::atomic::Ordering::Relaxed);
    let mut p = Pay::<A, N> { a: [], b: [0; N] };
    for i in 0..N {
        p.b[i] = pattern(k, i);
    }
    unsafe {
        cv::ebr::defer(g, move || {
            let p = std::hint::black_box(p);
            let base = PAYLOAD_BASE.load(std::sync::atomic::Ordering::Relaxed);
            let addr = &p as *const Pay<A, N> as usize;
            let mut ok = addr % std::mem::align_of::<Pay<A, N>>() == 0;
            let k = if N > 0 { p.b[0] as usize } else { usize::MAX };
            for i in 1..N {
                ok &= p.b[i] == pattern(k, i);
            }
            let Some(m) = try_mon() else { return };
            let id = if N > 0 {
                base + k
            } else {
                // next function of this case that has not run yet
                (base..m.ebr.deferred.len()).find(|&i| m.ebr.deferred[i].runs == 0).unwrap_or(base)
            };
            if !ok || id >= m.ebr.deferred.len() {
                m.violate(
                    "C15",
                    "payload-corrupted",
                    format!(
                        "captured data of a deferred function arrived damaged or misaligned (closure size {}, align {}): {:?}",
                        std::mem::size_of::<Pay<A, N>>(),
                        std::mem::align_of::<Pay<A, N>>(),
                        &p.b[..N.min(40)]
                    ),
                );
                return;
            }
            ran(id);
        })
    };
}

pub const PAY_SIZES: [usize; 45] = [
    0, 1, 2, 3, 4, 5, 6, 7, 8, 9, 10, 11, 12, 13, 14, 15, 16, 17, 18, 19, 20, 21, 22, 23, 24, 25, 26,
    27, 28, 29, 30, 31, 32, 33, 34, 35, 36, 40, 47, 48, 49, 64, 65, 128, 256,
];
pub const PAY_ALIGNS: [usize; 7] = [1, 2, 4, 8, 16, 32, 64];

fn defer_payload(g: &Guard, base: usize, k: usize, size_i: usize, align_i: usize) {
    macro_rules! by_size {
        ($a:ty) => {
            by_size!(@ $a; 0 1 2 3 4 5 6 7 8 9 10 11 12 13 14 15 16 17 18 19 20 21 22 23 24 25 26 27 28 29 30 31 32 33 34 35 36 40 47 48 49 64 65 128 256)
        };
        (@ $a:ty; $($n:literal)*) => {
            match PAY_SIZES[size_i] {
                $($n => defer_pay::<$a, $n>(g, base, k),)*
                _ => unreachable!(),
            }
        };
    }
    match align_i {
        0 => by_size!(u8),
        1 => by_size!(u16),
        2 => by_size!(u32),
        3 => by_size!(u64),
        4 => by_size!(Al16),
        5 => by_size!(Al32),
        _ => by_size!(Al64),
    }
}

pub const PAY_CAPS: [usize; 3] = [2, 3, 64];

pub fn payload_cases() -> i64 {
    (PAY_SIZES.len() * PAY_ALIGNS.len() * PAY_CAPS.len() * 7 * 4) as i64
}

fn payload(p: &Params) -> Program {
    let e0 = p.get("e0", 0) as usize;
    let mut k = p.get("case", 0) as usize;
    let mode = k % 4;
    k /= 4;
    let fill_i = k % 7;
    k /= 7;
    let cap = PAY_CAPS[k % PAY_CAPS.len()];
    k /= PAY_CAPS.len();
    let align_i = k % PAY_ALIGNS.len();
    k /= PAY_ALIGNS.len();
    let size_i = k % PAY_SIZES.len();
    let fill = [0, 1, cap.saturating_sub(1), cap, cap + 1, 2 * cap, 2 * cap + 1][fill_i];
    let ew = EWorld::new(e0);
    let ew2 = ew.clone();
    Program {
        e0,
        setup: Some(ebody(&ew, move |c, ew| {
            ew.attach(e0);
            let mut h = Some(ew.collector.register());
            let mut g = Some(c.pin(h.as_ref().unwrap()));
            let base = mon().ebr.deferred.len();
            for k in 0..fill {
                mon().closure_deferred(c.t);
                defer_payload(&g.as_ref().unwrap().g, base, k, size_i, align_i);
            }
            match mode {
                0 => {
                    c.flush(g.as_ref().unwrap());
                    c.unpin(g.take().unwrap());
                    drop(h.take());
                }
                2 => {
                    drop(h.take());
                    c.unpin(g.take().unwrap());
                }
                _ => {
                    c.unpin(g.take().unwrap());
                    drop(h.take());
                }
            }
        })),
        threads: vec![],
        post: Some(survivor(&ew2, 40, mode != 3)),
        finish: Some(finish_all_ran_once()),
        bag_cap: cap,
        ..ebase(p, 0)
    }
}

// ------------------------------------------------------------------------------------ C16

/// symbols: 0 pin; 1..=3 drop guard i; 4..=6 reactivate guard i; 7..=15 reactivate_after(guard i, f)
/// with f = 0 nop, 1 pin and drop a nested guard, 2 panic
pub fn guard_seqs(depth: usize) -> &'static Vec<Vec<u8>> {
    static S: OnceLock<std::sync::Mutex<std::collections::HashMap<usize, &'static Vec<Vec<u8>>>>> = OnceLock::new();
    let map = S.get_or_init(Default::default);
    let mut map = map.lock().unwrap();
    if let Some(v) = map.get(&depth) {
        return v;
    }
    let mut out: Vec<Vec<u8>> = vec![];
    fn rec(seq: &mut Vec<u8>, live: [bool; 3], depth: usize, out: &mut Vec<Vec<u8>>) {
        out.push(seq.clone());
        if seq.len() == depth {
            return;
        }
        if let Some(i) = live.iter().position(|l| !l) {
            let mut l2 = live;
            l2[i] = true;
            seq.push(0);
            rec(seq, l2, depth, out);
            seq.pop();
        }
        for i in 0..3 {
            if live[i] {
                let mut l2 = live;
                l2[i] = false;
                seq.push(1 + i as u8);
                rec(seq, l2, depth, out);
                seq.pop();
                seq.push(4 + i as u8);
                rec(seq, live, depth, out);
                seq.pop();
                for f in 0..3 {
                    seq.push(7 + (i * 3 + f) as u8);
                    rec(seq, live, depth, out);
                    seq.pop();
                }
            }
        }
    }
    rec(&mut vec![], [false; 3], depth, &mut out);
    let leaked: &'static Vec<Vec<u8>> = Box::leak(Box::new(out));
    map.insert(depth, leaked);
    leaked
}

fn run_guard_seq(seq: &[u8], h: &LocalHandle, peer: &LocalHandle, collector: &Collector, base: usize) {
    let bad = |what: String| mon().violate("C16", "guard-model", what);
    let peer0 = cv::ebr::local_state(peer);
    let mut guards: [Option<Guard>; 3] = [None, None, None];
    let mut live = 0usize;
    let handle0 = cv::ebr::local_state(h).handle_count;
    for (step, &s) in seq.iter().enumerate() {
        mon().mix(0x1600 ^ ((s as u64) << 8) ^ ((step as u64) << 16));
        let before = cv::ebr::local_state(h);
        let ctx = |what: &str| format!("step {} of {:?} ({}): {}", step, seq, if base == 0 { "top level" } else { "inside a deferred function" }, what);
        match s {
            0 => {
                let i = guards.iter().position(|g| g.is_none()).unwrap();
                guards[i] = Some(h.pin());
                live += 1;
            }
            1..=3 => {
                guards[(s - 1) as usize] = None;
                live -= 1;
            }
            4..=6 => {
                let sole = live + base == 1;
                guards[(s - 4) as usize].as_mut().unwrap().reactivate();
                let after = cv::ebr::local_state(h);
                if sole {
                    let g = cv::ebr::global_epoch(collector);
                    if !after.pinned || after.epoch != g {
                        bad(ctx(&format!("after reactivate on the sole guard the thread is pinned={} at epoch {}, global epoch {}", after.pinned, after.epoch, g)));
                    }
                    mon().cover("reactivate-sole");
                } else if after.epoch != before.epoch || !after.pinned {
                    bad(ctx("reactivate on one of several guards changed the pinned epoch"));
                }
            }
            _ => {
                let i = ((s - 7) / 3) as usize;
                let f = (s - 7) % 3;
                let sole = live + base == 1;
                let hp = h as *const LocalHandle as usize;
                let mut inside = (false, 0usize);
                let g = guards[i].as_mut().unwrap();
                let r = std::panic::catch_unwind(std::panic::AssertUnwindSafe(|| {
                    g.reactivate_after(|| {
                        let h = unsafe { &*(hp as *const LocalHandle) };
                        let st = cv::ebr::local_state(h);
                        inside = (st.pinned, st.guard_count);
                        match f {
                            0 => {}
                            1 => {
                                let g2 = h.pin();
                                let st2 = cv::ebr::local_state(h);
                                if !st2.pinned {
                                    mon().violate("C16", "guard-model", "a guard created inside reactivate_after does not pin the thread".into());
                                }
                                drop(g2);
                            }
                            _ => panic!("closure panics"),
                        }
                    })
                }));
                if (f == 2) != r.is_err() {
                    bad(ctx("panic of the closure was not propagated exactly"));
                }
                if inside.0 == sole {
                    bad(ctx(&format!("inside the closure the thread was pinned={} with {} live guard(s) besides", inside.0, live + base - 1)));
                }
                if inside.1 != live + base - 1 {
                    bad(ctx(&format!("inside the closure guard_count was {}, expected {}", inside.1, live + base - 1)));
                }
                if sole {
                    mon().cover("reactivate-after-sole");
                }
                if f == 2 {
                    mon().cover("reactivate-after-panic");
                }
            }
        }
        let st = cv::ebr::local_state(h);
        if st.guard_count != live + base {
            bad(ctx(&format!("guard_count is {}, model says {}", st.guard_count, live + base)));
        }
        if st.pinned != (live + base > 0) {
            bad(ctx(&format!("thread pinned={}, with {} live guard(s)", st.pinned, live + base)));
        }
        if st.handle_count != handle0 {
            bad(ctx(&format!("handle_count drifted from {} to {}", handle0, st.handle_count)));
        }
        if cv::ebr::local_state(peer) != peer0 {
            bad(ctx("the other participant's state changed"));
        }
        let m = mon();
        m.mix_outcome(0x1600 ^ ((st.guard_count as u64) << 8) ^ ((st.pinned as u64) << 20) ^ ((step as u64) << 24));
    }
    drop(guards);
    let st = cv::ebr::local_state(h);
    if st.guard_count != base || st.pinned != (base > 0) {
        bad(format!("after dropping all guards of {:?}: guard_count {}, pinned {}", seq, st.guard_count, st.pinned));
    }
}

/// Sequences on a guard that has outlived its participant's last handle (`h.pin(); drop(h)`):
/// symbols 0 reactivate, 1 reactivate_after(nop), 2 reactivate_after(panic); every sequence of
/// length <= depth, then the guard is dropped.
pub fn orphan_cases(depth: usize) -> i64 {
    let mut per = 0i64;
    let mut pow = 1i64;
    for _ in 0..=depth {
        per += pow;
        pow *= 3;
    }
    per
}

fn orphan_guard(p: &Params) -> Program {
    let e0 = p.get("e0", 0) as usize;
    let two = p.get("orphan", 0) == 2;
    let mut idx = p.get("case", 0);
    let mut len = 0;
    let mut block = 1i64;
    while idx >= block {
        idx -= block;
        block *= 3;
        len += 1;
    }
    let mut seq = vec![];
    for _ in 0..len {
        seq.push((idx % 3) as u8);
        idx /= 3;
    }
    let ew = EWorld::new(e0);
    let ew2 = ew.clone();
    Program {
        e0,
        setup: Some(ebody(&ew, move |_c, ew| {
            ew.attach(e0);
            std::panic::set_hook(Box::new(|_| {}));
            let bad = |what: String| mon().violate("C16", "guard-model", what);
            let peer = ew.collector.register();
            let h = ew.collector.register();
            let mut g = h.pin();
            let addr = cv::ebr::guard_local_state(&g).unwrap().addr;
            // with `two`, a second guard exists when the handle goes away and is dropped first:
            // the participant must survive that drop
            let second = if two { Some(h.pin()) } else { None };
            drop(h);
            if let Some(g2) = second {
                drop(g2);
                let st = cv::ebr::guard_local_state(&g).unwrap();
                if !st.pinned || st.guard_count != 1 || !mon().locals.contains_key(&addr) {
                    bad(format!("after dropping one of two guards of a participant without handle: pinned={} guard_count={} registered={}", st.pinned, st.guard_count, mon().locals.contains_key(&addr)));
                }
                for _ in 0..3 {
                    let pg = peer.pin();
                    cv::ebr::try_advance(&ew.collector, &pg);
                }
                let ge = cv::ebr::global_epoch(&ew.collector);
                if ge.wrapping_sub(st.epoch) > 1 {
                    bad(format!("after dropping one of two guards of a participant without handle the other guard (epoch {}) does not hold the global epoch back (now {})", st.epoch, ge));
                }
            }
            for (step, &s) in seq.iter().enumerate() {
                mon().mix(0x1680 ^ ((s as u64) << 8) ^ ((step as u64) << 16));
                let r = std::panic::catch_unwind(std::panic::AssertUnwindSafe(|| match s {
                    0 => g.reactivate(),
                    1 => g.reactivate_after(|| {}),
                    _ => g.reactivate_after(|| panic!("closure panics")),
                }));
                if (s == 2) != r.is_err() {
                    bad(format!("step {} of {:?} on a guard without handle: panic not propagated exactly", step, seq));
                }
                // the thread must be pinned again: still a registered participant, published as
                // pinned, and actually holding the epoch back
                let st = cv::ebr::guard_local_state(&g).unwrap();
                if !st.pinned || st.guard_count != 1 || st.handle_count != 0 {
                    bad(format!("step {} of {:?} on a guard without handle: pinned={} guard_count={} handle_count={}", step, seq, st.pinned, st.guard_count, st.handle_count));
                }
                if !mon().locals.contains_key(&addr) {
                    bad(format!("step {} of {:?}: the participant was unregistered although its guard is live", step, seq));
                }
                for _ in 0..3 {
                    let pg = peer.pin();
                    cv::ebr::try_advance(&ew.collector, &pg);
                }
                let ge = cv::ebr::global_epoch(&ew.collector);
                if ge.wrapping_sub(st.epoch) > 1 {
                    bad(format!("step {} of {:?}: after reactivation the guard (epoch {}) does not hold the global epoch back (now {})", step, seq, st.epoch, ge));
                }
                mon().cover("orphan-guard-step");
            }
            drop(g);
            if mon().locals.contains_key(&addr) {
                bad(format!("after dropping the last guard of {:?} the participant is still registered", seq));
            }
            drop(peer);
            let _ = std::panic::take_hook();
        })),
        threads: vec![],
        post: Some(survivor(&ew2, 40, true)),
        ..ebase(p, 0)
    }
}

fn guards(p: &Params) -> Program {
    if p.get("orphan", 0) != 0 {
        return orphan_guard(p);
    }
    let e0 = p.get("e0", 0) as usize;
    let depth = p.get("depth", 4) as usize;
    let seq = guard_seqs(depth)[p.get("case", 0) as usize].clone();
    // 0: top level; 1: inside a deferred function that runs during the thread's own collection
    let inside = p.get("inside", 0) != 0;
    let peer_pinned = p.get("peer", 0) != 0;
    let ew = EWorld::new(e0);
    let ew2 = ew.clone();
    Program {
        e0,
        setup: Some(ebody(&ew, move |c, ew| {
            ew.attach(e0);
            std::panic::set_hook(Box::new(|_| {}));
            let h = ew.collector.register();
            let peer = ew.collector.register();
            let pg = if peer_pinned { Some(peer.pin()) } else { None };
            if !inside {
                run_guard_seq(&seq, &h, &peer, &ew.collector, 0);
            } else {
                let hp = &h as *const LocalHandle as usize;
                let pp = &peer as *const LocalHandle as usize;
                let cp = &ew.collector as *const Collector as usize;
                let seq2 = seq.clone();
                let g = c.pin(&h);
                let id = mon().closure_deferred(c.t);
                unsafe {
                    cv::ebr::defer(&g.g, move || {
                        ran(id);
                        if sched::tid() == sched::NONE || try_mon().is_none() {
                            return;
                        }
                        let (h, peer, col) = (&*(hp as *const LocalHandle), &*(pp as *const LocalHandle), &*(cp as *const Collector));
                        run_guard_seq(&seq2, h, peer, col, 1);
                        mon().cover("sequence-ran-inside-closure");
                    })
                };
                c.flush(&g);
                c.unpin(g);
                // the peer, if pinned, must let go for the epoch to move three times
                drop(pg);
                let mut k = 0;
                while mon().ebr.deferred[id].runs == 0 && k < 12 {
                    c.round(&h);
                    k += 1;
                }
                if mon().ebr.deferred[id].runs == 0 {
                    mon().violate("C16", "harness", "the closure carrying the sequence never ran".into());
                }
                drop(peer);
                drop(h);
                let _ = std::panic::take_hook();
                return;
            }
            drop(pg);
            drop(peer);
            drop(h);
            let _ = std::panic::take_hook();
        })),
        threads: vec![],
        post: Some(survivor(&ew2, 40, true)),
        finish: Some(finish_all_ran_once()),
        ..ebase(p, 0)
    }
}

// ------------------------------------------------------------------------------------ C17

/// Queue element with a destructor: the queue hands every pushed element to exactly one consumer
/// and never destroys (or duplicates) one itself.
pub struct QItem(pub u64);

impl Drop for QItem {
    fn drop(&mut self) {
        if let Some(m) = crate::monitor::try_mon() {
            let v = self.0;
            let n = {
                let e = m.ebr.q_drops.entry(v).or_insert(0);
                *e += 1;
                *e
            };
            if m.ebr.q_dropping != Some(v) {
                m.violate("C17", "element-destroyed-by-queue", format!("element {} was destroyed inside a queue operation: only the consumer that received it may destroy it", v));
            } else if n > 1 {
                m.violate("C17", "element-destroyed-twice", format!("element {} was destroyed {} times", v, n));
            }
        }
    }
}

fn q_step(state: &VecDeque<i64>, op: &OpRec) -> Option<VecDeque<i64>> {
    let pred = |which: i64, v: i64| match which {
        1 => v % 2 == 0,
        2 => v < 2,
        _ => true,
    };
    match op.kind {
        "qpush" => {
            let mut s = state.clone();
            s.push_back(op.args[1]);
            Some(s)
        }
        "qpop" => {
            let which = op.args[1];
            if op.res[0] == 1 {
                let v = op.res[1];
                if state.front() == Some(&v) && pred(which, v) {
                    let mut s = state.clone();
                    s.pop_front();
                    Some(s)
                } else {
                    None
                }
            } else {
                match state.front() {
                    None => Some(state.clone()),
                    Some(&v) if !pred(which, v) => Some(state.clone()),
                    _ => None,
                }
            }
        }
        _ => Some(state.clone()),
    }
}

#[derive(Clone, Copy)]
enum QOp {
    Push(u64),
    Pop,
    PopEven,
    PopSmall,
}

fn queue(p: &Params) -> Program {
    use QOp::*;
    let e0 = p.get("e0", 0) as usize;
    let (init, progs): (Vec<u64>, Vec<Vec<QOp>>) = if p.get("gen", 0) != 0 {
        gen_queue_program(p)
    } else {
        queue_catalogue(p.get("prog", 0))
    };
    queue_program(p, e0, init, progs)
}

/// Generated family: `threads` threads x exactly `k` operations over {push (a fresh value of the
/// thread's parity class), pop, pop-if-even, pop-if-small} x 4 initial queues.
pub const Q_LETTERS: i64 = 5;
pub const Q_INITS: i64 = 4;

pub fn gen_queue_cases(threads: usize, k: usize) -> i64 {
    Q_INITS * Q_LETTERS.pow((threads * k) as u32)
}

fn gen_queue_program(p: &Params) -> (Vec<u64>, Vec<Vec<QOp>>) {
    use QOp::*;
    let threads = p.get("threads", 2) as usize;
    let k = p.get("k", 2) as usize;
    let mut idx = p.get("case", 0);
    let init = match idx % Q_INITS {
        0 => vec![],
        1 => vec![2],
        2 => vec![1, 2],
        _ => vec![2, 4],
    };
    idx /= Q_INITS;
    let mut progs = vec![];
    let mut next_even = 10u64;
    let mut next_odd = 11u64;
    for _ in 0..threads {
        let mut ops = vec![];
        for _ in 0..k {
            ops.push(match idx % Q_LETTERS {
                0 => {
                    next_even += 2;
                    Push(next_even)
                }
                1 => {
                    next_odd += 2;
                    Push(next_odd)
                }
                2 => Pop,
                3 => PopEven,
                _ => PopSmall,
            });
            idx /= Q_LETTERS;
        }
        progs.push(ops);
    }
    (init, progs)
}

fn queue_catalogue(prog: i64) -> (Vec<u64>, Vec<Vec<QOp>>) {
    use QOp::*;
    match prog {
        0 => (vec![], vec![vec![Push(1), Push(2)], vec![Pop, PopEven], vec![Push(3)]]),
        1 => (vec![], vec![vec![Push(1)], vec![Push(2)], vec![Pop, Pop]]),
        2 => (vec![10], vec![vec![Pop], vec![Pop], vec![Push(4)]]),
        3 => (vec![1, 2], vec![vec![PopEven], vec![Pop], vec![PopSmall]]),
        4 => (vec![2], vec![vec![PopEven, PopEven], vec![Push(4), Push(5)]]),
        5 => (vec![], vec![vec![Push(1), Pop], vec![Push(2), Pop]]),
        // two consumers on a queue whose first elements all satisfy the predicate: losing the race
        // for the head is no reason to report "empty"
        7 => (vec![2, 4, 6], vec![vec![PopEven], vec![Pop]]),
        8 => (vec![2, 4], vec![vec![PopEven], vec![PopEven], vec![Push(8)]]),
        _ => (vec![3], vec![vec![PopEven, Pop], vec![Pop, Push(6)], vec![PopSmall]]),
    }
}

fn queue_program(p: &Params, e0: usize, init: Vec<u64>, progs: Vec<Vec<QOp>>) -> Program {
    use QOp::*;
    let ew = EWorld::new(e0);
    let run_op = |c: &ECtx, ew: &EWorld, h: &LocalHandle, op: QOp| {
        let g = h.pin();
        match op {
            Push(v) => {
                let i = mon().op_begin(c.t, "qpush", [0, v as i64, 0, 0]);
                ew.queue.push(QItem(v), &g);
                mon().op_end(i, [0; 4]);
            }
            Pop | PopEven | PopSmall => {
                let which = match op {
                    Pop => 0,
                    PopEven => 1,
                    _ => 2,
                };
                let i = mon().op_begin(c.t, "qpop", [0, which, 0, 0]);
                let r = match op {
                    Pop => ew.queue.try_pop(&g),
                    PopEven => ew.queue.try_pop_if(|v| v.0 % 2 == 0, &g),
                    _ => ew.queue.try_pop_if(|v| v.0 < 2, &g),
                };
                mon().op_end(i, [r.is_some() as i64, r.as_ref().map(|x| x.0).unwrap_or(0) as i64, 0, 0]);
                if let Some(item) = r {
                    // the consumer owns what it received
                    mon().ebr.q_dropping = Some(item.0);
                    drop(item);
                    mon().ebr.q_dropping = None;
                }
            }
        }
        drop(g);
    };
    let n = progs.len();
    let threads: Vec<Body> = progs
        .into_iter()
        .enumerate()
        .map(|(ti, ops)| {
            ebody(&ew, move |c, ew| {
                let h = ew.handles[ti].take().0;
                for op in ops {
                    run_op(c, ew, &h, op);
                }
                drop(h);
            })
        })
        .collect();
    let ew2 = ew.clone();
    Program {
        e0,
        setup: Some(ebody(&ew, move |c, ew| {
            ew.attach(e0);
            let h = ew.collector.register();
            for v in init {
                run_op(c, ew, &h, Push(v));
            }
            drop(h);
            for i in 0..n {
                ew.handles[i].put(SendHandle(ew.collector.register()));
            }
        })),
        threads,
        post: Some(ebody(&ew2, move |c, ew| {
            let h = ew.collector.register();
            let tail_ok = |when: &str| {
                // with no operation in progress the tail is on a node of the queue; a tail left
                // on a node that was popped dangles once that node has been reclaimed, and the
                // next push links its element to nowhere
                let g = h.pin();
                if !ew.queue.tail_reachable(&g) {
                    mon().violate("C17", "tail-on-retired-node", format!("{}: with no operation in progress the queue's tail points to a node that is no longer reachable from its head", when));
                }
            };
            tail_ok("after the concurrent phase");
            // whatever is left comes out in order
            for _ in 0..8 {
                run_op(c, ew, &h, Pop);
            }
            tail_ok("after emptying the queue");
            // retired nodes are reclaimed; the queue still works afterwards
            c.rounds(&h, 6);
            run_op(c, ew, &h, Push(99));
            run_op(c, ew, &h, Pop);
            tail_ok("at the end");
            drop(h);
        })),
        finish: Some(Box::new(|m: &mut Monitor| {
            let ops: Vec<OpRec> = m.hist.iter().filter(|o| (o.kind == "qpush" || o.kind == "qpop") && o.resp != 0).cloned().collect();
            m.cover("history-checked");
            if ops.iter().any(|o| o.kind == "qpop" && o.res[0] == 0 && o.tid < 3) {
                m.cover("empty-pop");
            }
            if lin::linearizable(&ops, VecDeque::new(), &q_step).is_none() {
                m.violate("C17", "not-linearizable", format!("no linearization of the history is a legal FIFO run: {}", lin::describe(&ops)));
            }
        })),
        ..ebase(p, 1 << sched::CLASS_RAW)
    }
}

// ------------------------------------------------------------------------------------ C18

#[derive(Clone, Copy)]
enum LOp {
    Insert(usize),
    Delete(usize),
    Traverse,
}

pub fn on_list_finalize(m: &mut Monitor, id: usize) {
    let n = {
        let e = m.ebr.list_finalized.entry(id).or_insert(0);
        *e += 1;
        *e
    };
    m.cover("list-finalize");
    if n > 1 {
        m.violate("C18", "finalized-twice", format!("registry element {} was unlinked and handed to reclamation twice", id));
    }
    if !m.ebr.list_deleted.contains_key(&id) {
        m.violate("C18", "finalized-live", format!("registry element {} was unlinked although it was never deleted", id));
    }
}

fn list(p: &Params) -> Program {
    use LOp::*;
    let e0 = p.get("e0", 0) as usize;
    let (init, progs): (Vec<usize>, Vec<Vec<LOp>>) = if p.get("gen", 0) != 0 {
        gen_list_program(p)
    } else {
        list_catalogue(p.get("prog", 0))
    };
    list_program(p, e0, init, progs)
}

/// Generated family: `threads` threads x exactly `k` operations over {insert a fresh element,
/// delete the thread's own element of the initial list (once), delete what the thread inserted
/// last, traverse} x 3 initial lists. Every element is deleted by at most one thread.
pub const L_LETTERS: i64 = 4;
pub const L_INITS: i64 = 3;

pub fn gen_list_cases(threads: usize, k: usize) -> i64 {
    L_INITS * L_LETTERS.pow((threads * k) as u32)
}

fn gen_list_program(p: &Params) -> (Vec<usize>, Vec<Vec<LOp>>) {
    use LOp::*;
    let threads = p.get("threads", 2) as usize;
    let k = p.get("k", 2) as usize;
    let mut idx = p.get("case", 0);
    // initial elements 1..=n; thread t may delete initial element t+1
    let init: Vec<usize> = match idx % L_INITS {
        0 => vec![],
        1 => vec![1, 2],
        _ => vec![1, 2, 3],
    };
    idx /= L_INITS;
    let mut progs = vec![];
    let mut fresh = 4usize;
    for t in 0..threads {
        let mut ops = vec![];
        let mut own_deleted = false;
        let mut inserted: Vec<usize> = vec![];
        for _ in 0..k {
            match idx % L_LETTERS {
                0 => {
                    if fresh < 8 {
                        ops.push(Insert(fresh));
                        inserted.push(fresh);
                        fresh += 1;
                    } else {
                        ops.push(Traverse);
                    }
                }
                1 => {
                    if !own_deleted && init.contains(&(t + 1)) {
                        ops.push(Delete(t + 1));
                        own_deleted = true;
                    } else {
                        ops.push(Traverse);
                    }
                }
                2 => match inserted.pop() {
                    Some(id) => ops.push(Delete(id)),
                    None => ops.push(Traverse),
                },
                _ => ops.push(Traverse),
            }
            idx /= L_LETTERS;
        }
        progs.push(ops);
    }
    (init, progs)
}

fn list_catalogue(prog: i64) -> (Vec<usize>, Vec<Vec<LOp>>) {
    use LOp::*;
    match prog {
        0 => (vec![1, 2, 3], vec![vec![Traverse], vec![Delete(2), Delete(1)], vec![Insert(4)]]),
        1 => (vec![1, 2], vec![vec![Traverse, Traverse], vec![Delete(1)], vec![Delete(2)]]),
        2 => (vec![1], vec![vec![Traverse], vec![Insert(2), Delete(2)], vec![Traverse]]),
        3 => (vec![1, 2, 3], vec![vec![Delete(2), Traverse], vec![Delete(3), Traverse]]),
        4 => (vec![1, 2, 3], vec![vec![Traverse], vec![Delete(3), Traverse], vec![Delete(2)]]),
        // three neighbours 3 -> 2 -> 1 (the list is newest first): 2 is deleted; a traversal that
        // is about to unlink it is overtaken by another one, which unlinks it and then deletes
        // both the predecessor and the successor
        6 => (vec![1, 2, 3, 4], vec![vec![Delete(2)], vec![Traverse], vec![Traverse, Delete(3), Delete(1)]]),
        _ => (vec![], vec![vec![Insert(1), Traverse], vec![Insert(2), Traverse], vec![Traverse]]),
    }
}

fn list_program(p: &Params, e0: usize, init: Vec<usize>, progs: Vec<Vec<LOp>>) -> Program {
    use LOp::*;
    let ew = EWorld::new(e0);
    let run_op = |c: &ECtx, ew: &EWorld, h: &LocalHandle, op: LOp| {
        let g = h.pin();
        match op {
            Insert(id) => {
                let i = mon().op_begin(c.t, "linsert", [0, id as i64, 0, 0]);
                // from its invocation on, the element may legitimately show up in traversals
                mon().ebr.list_invoked.insert(id);
                let e = ew.list.insert(id, &g);
                ew.elems[id].put(e);
                let m = mon();
                m.op_end(i, [0; 4]);
                let (inv, resp) = (m.hist[i].inv, m.hist[i].resp);
                m.ebr.list_inserted.insert(id, (inv, resp));
            }
            Delete(id) => {
                let i = mon().op_begin(c.t, "ldelete", [0, id as i64, 0, 0]);
                let inv = mon().hist[i].inv;
                mon().ebr.list_deleted.insert(id, inv);
                let e = ew.elems[id].take();
                unsafe { ew.list.delete(e, &g) };
                mon().op_end(i, [0; 4]);
            }
            Traverse => {
                let i = mon().op_begin(c.t, "ltraverse", [0; 4]);
                let (seen, stalled) = ew.list.traverse(&g);
                let m = mon();
                let mut code = 0i64;
                for id in seen.iter() {
                    code |= 1 << id;
                }
                m.op_end(i, [stalled as i64, code, 0, 0]);
                let (inv, resp) = (m.hist[i].inv, m.hist[i].resp);
                if stalled {
                    m.cover("traverse-stalled");
                } else {
                    m.cover("traverse-complete");
                    // every element inserted before the traversal began and not deleted before it
                    // ended must have been visited
                    let must: Vec<usize> = m
                        .ebr
                        .list_inserted
                        .iter()
                        .filter(|(id, (_, r))| *r < inv && m.ebr.list_deleted.get(id).map(|&d| d > resp).unwrap_or(true))
                        .map(|(id, _)| *id)
                        .collect();
                    for id in must {
                        if !seen.contains(&id) {
                            m.violate("C18", "stable-member-overlooked", format!("a traversal that did not stall visited {:?} but not element {}, which was in the list throughout", seen, id));
                        }
                    }
                    // nothing that was never inserted, nothing twice
                    let mut s = seen.clone();
                    s.sort();
                    s.dedup();
                    if s.len() != seen.len() || seen.iter().any(|id| !m.ebr.list_invoked.contains(id)) {
                        m.violate("C18", "traversal-garbage", format!("a traversal returned {:?}", seen));
                    }
                }
            }
        }
        drop(g);
    };
    let n = progs.len();
    let threads: Vec<Body> = progs
        .into_iter()
        .enumerate()
        .map(|(ti, ops)| {
            ebody(&ew, move |c, ew| {
                let h = ew.handles[ti].take().0;
                for op in ops {
                    run_op(c, ew, &h, op);
                }
                drop(h);
            })
        })
        .collect();
    let ew2 = ew.clone();
    Program {
        e0,
        setup: Some(ebody(&ew, move |c, ew| {
            ew.attach(e0);
            let h = ew.collector.register();
            for id in init {
                run_op(c, ew, &h, Insert(id));
            }
            drop(h);
            for i in 0..n {
                ew.handles[i].put(SendHandle(ew.collector.register()));
            }
        })),
        threads,
        post: Some(ebody(&ew2, move |c, ew| {
            let h = ew.collector.register();
            for id in 0..8 {
                if ew.elems[id].is_some() {
                    run_op(c, ew, &h, Delete(id));
                }
            }
            run_op(c, ew, &h, Traverse);
            run_op(c, ew, &h, Traverse);
            c.rounds(&h, 6);
            drop(h);
        })),
        finish: Some(Box::new(|m: &mut Monitor| {
            // every deleted element has been unlinked exactly once by now (two quiet traversals)
            let missing: Vec<usize> = m.ebr.list_deleted.keys().filter(|id| m.ebr.list_finalized.get(id).copied().unwrap_or(0) != 1).copied().collect();
            if let Some(id) = missing.first() {
                m.violate("C18", "not-unlinked", format!("deleted element {} was unlinked {} time(s) after two quiet traversals", id, m.ebr.list_finalized.get(id).copied().unwrap_or(0)));
            }
        })),
        ..ebase(p, 1 << sched::CLASS_RAW)
    }
}

// re-exports for the generated family
pub fn ebody_pub(ew: &Arc<EWorld>, f: impl FnOnce(&ECtx, &EWorld) + Send + 'static) -> Body {
    ebody(ew, f)
}
pub fn survivor_pub(ew: &Arc<EWorld>, max: usize, rounds_before_check: bool) -> Body {
    survivor(ew, max, rounds_before_check)
}
pub fn finish_all_ran_once_pub() -> Box<dyn FnOnce(&mut Monitor)> {
    finish_all_ran_once()
}
pub fn ebase_pub(p: &Params, classes: u8) -> Program {
    ebase(p, classes)
}
impl EWorld {
    pub fn new_pub(e0: usize) -> Arc<EWorld> {
        EWorld::new(e0)
    }
    pub fn attach_pub(&self, e0: usize) {
        self.attach(e0)
    }
}
