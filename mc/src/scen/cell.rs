//! Concurrent histories on one AtomicRc / AtomicWeak (C08, C09), checked for linearizability.

use circ::{Rc, Weak};

use crate::exec::{Body, Params, Program};
use crate::lin;
use crate::monitor::{Monitor, OpRec};
use crate::scen::ScenarioDef;
use crate::world::{Ctx, World};

pub static SCENARIOS: &[ScenarioDef] = &[
    ScenarioDef {
        name: "cell/concurrent",
        about: "2-3 threads x 1-2 operations on one AtomicRc; every complete history must be linearizable",
        build: concurrent,
    },
    ScenarioDef {
        name: "cell/wconcurrent",
        about: "2-3 threads x 1-2 operations on one AtomicWeak; every complete history must be linearizable",
        build: wconcurrent,
    },
];

fn body(f: impl FnOnce(&Ctx, &'static World) + Send + 'static) -> Body {
    Box::new(move |w| {
        let c = Ctx::new();
        f(&c, w)
    })
}

fn finish_lin(prop: &'static str, cell_id: i64, weak: bool) -> Box<dyn FnOnce(&mut Monitor)> {
    Box::new(move |m: &mut Monitor| {
        let ops: Vec<OpRec> = m
            .hist
            .iter()
            .filter(|o| {
                o.args[0] == cell_id
                    && o.resp != 0
                    && (if weak {
                        ["wload", "wstore", "wswap", "wcas", "wcas_weak", "wcas_tag"].contains(&o.kind)
                    } else {
                        ["load", "store", "swap", "cas", "cas_weak", "cas_tag"].contains(&o.kind)
                    })
            })
            .cloned()
            .collect();
        m.cover("history-checked");
        if lin::linearizable(&ops, 0i64, &lin::cell_step).is_none() {
            m.violate(
                prop,
                "not-linearizable",
                format!(
                    "no linearization of the history on the cell is a legal run of a (pointer, tag) cell: {}",
                    lin::describe(&ops)
                ),
            );
        }
    })
}

fn load_cas(slot: usize) -> Body {
    body(move |c, w| {
        let des = w.rc[slot].take();
        let g = c.pin();
        let s = c.load(&w.roots[0], &g);
        match c.cas(&w.roots[0], s, des, &g, false) {
            Ok(old) => c.drop_rc(old),
            Err((des, _)) => c.drop_rc(des),
        }
        c.unpin(g);
    })
}

fn concurrent(p: &Params) -> Program {
    let prog = p.get("prog", 0);
    let threads: Vec<Body> = match prog {
        0 => vec![
            load_cas(1),
            body(|c, w| {
                // the same pointer goes back under a newer stamp
                let r = c.swap(&w.roots[0], Rc::null());
                circ::verif::try_advance();
                let g = c.pin();
                c.store(&w.roots[0], r, &g);
                c.unpin(g);
            }),
        ],
        1 => vec![load_cas(1), load_cas(2)],
        2 => vec![
            body(|c, w| {
                let y = w.rc[1].take();
                let g = c.pin();
                c.store(&w.roots[0], y, &g);
                c.unpin(g);
            }),
            body(|c, w| {
                let z = w.rc[2].take();
                let old = c.swap(&w.roots[0], z);
                c.drop_rc(old);
            }),
            body(|c, w| {
                let g = c.pin();
                let _ = c.load(&w.roots[0], &g);
                let _ = c.load(&w.roots[0], &g);
                c.unpin(g);
            }),
        ],
        3 => {
            let tagger = |t: usize| {
                body(move |c, w| {
                    let g = c.pin();
                    let s = c.load(&w.roots[0], &g);
                    let _ = c.cas_tag(&w.roots[0], s, t, &g);
                    c.unpin(g);
                })
            };
            vec![tagger(1), tagger(2), load_cas(1)]
        }
        _ => vec![
            body(|c, w| {
                let y = w.rc[1].take();
                let g = c.pin();
                let s = c.load(&w.roots[0], &g);
                match c.cas(&w.roots[0], s, y, &g, true) {
                    Ok(old) => c.drop_rc(old),
                    Err((des, _)) => c.drop_rc(des),
                }
                c.unpin(g);
            }),
            body(|c, w| {
                let x1 = w.rc[2].take().with_tag(1);
                let g = c.pin();
                c.store(&w.roots[0], x1, &g);
                let _ = c.load(&w.roots[0], &g);
                c.unpin(g);
            }),
        ],
    };
    Program {
        e0: p.get("e0", 0) as usize,
        classes: p.get("classes", crate::sched::RC as i64) as u8,
        setup: Some(body(move |c, w| {
            let x = c.new_node(1);
            if prog == 4 {
                w.rc[2].put(c.clone_rc(&x));
            } else {
                w.rc[2].put(c.new_node(3));
            }
            let g = c.pin();
            c.store(&w.roots[0], x, &g);
            c.unpin(g);
            w.rc[1].put(c.new_node(2));
            c.round();
        })),
        threads,
        finish: Some(finish_lin("C08", 1, false)),
        claim: Some("C08"),
        ..Default::default()
    }
}

fn wconcurrent(p: &Params) -> Program {
    let prog = p.get("prog", 0);
    let wload_cas = |slot: usize| {
        body(move |c, w| {
            let des = w.weak[slot].take();
            let g = c.pin();
            let s = c.wload(&w.wroots[0], &g);
            match c.wcas(&w.wroots[0], s, des, &g, false) {
                Ok(old) => c.wdrop(old),
                Err((des, _)) => c.wdrop(des),
            }
            c.unpin(g);
        })
    };
    let threads: Vec<Body> = match prog {
        0 => vec![
            wload_cas(1),
            body(|c, w| {
                let r = c.wswap(&w.wroots[0], Weak::null());
                let g = c.pin();
                c.wstore(&w.wroots[0], r, &g);
                c.unpin(g);
            }),
        ],
        1 => vec![wload_cas(1), wload_cas(2)],
        3 => vec![
            // the cell holds x unstamped, the expected value is x stamped; while the exchange
            // retries, another thread stores x again carrying exactly the expected value's stamp
            body(|c, w| {
                let des = w.weak[1].take();
                let g = c.pin();
                let s = c.load(&w.roots[1], &g);
                let exp = c.sdowngrade(s);
                match c.wcas(&w.wroots[0], exp, des, &g, false) {
                    Ok(old) => c.wdrop(old),
                    Err((des, _)) => c.wdrop(des),
                }
                c.unpin(g);
            }),
            body(|c, w| {
                let g = c.pin();
                let s = c.load(&w.roots[1], &g);
                let stamped = c.ws_counted(c.sdowngrade(s));
                c.wstore(&w.wroots[0], stamped, &g);
                c.unpin(g);
            }),
        ],
        _ => vec![
            // expected value obtained from an AtomicRc written at another epoch
            body(|c, w| {
                let des = w.weak[1].take();
                let g = c.pin();
                let s = c.load(&w.roots[1], &g);
                let exp = c.sdowngrade(s);
                match c.wcas(&w.wroots[0], exp, des, &g, false) {
                    Ok(old) => c.wdrop(old),
                    Err((des, _)) => c.wdrop(des),
                }
                c.unpin(g);
            }),
            body(|c, w| {
                let g = c.pin();
                let _ = c.wload(&w.wroots[0], &g);
                let t = c.wload(&w.wroots[0], &g);
                let _ = c.wcas_tag(&w.wroots[0], t, 1, &g);
                c.unpin(g);
            }),
        ],
    };
    Program {
        e0: p.get("e0", 0) as usize,
        classes: p.get("classes", crate::sched::RC as i64) as u8,
        setup: Some(body(|c, w| {
            let x = c.new_node(1);
            let y = c.new_node(2);
            let z = c.new_node(3);
            let g = c.pin();
            c.wstore(&w.wroots[0], c.downgrade(&x), &g);
            c.store(&w.roots[1], c.clone_rc(&x), &g);
            c.unpin(g);
            w.weak[1].put(c.downgrade(&y));
            w.weak[2].put(c.downgrade(&z));
            w.rc[0].put(x);
            w.rc[1].put(y);
            w.rc[2].put(z);
            c.round();
        })),
        threads,
        finish: Some(finish_lin("C09", 4, true)),
        claim: Some("C09"),
        ..Default::default()
    }
}
