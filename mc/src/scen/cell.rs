//! Concurrent histories on one AtomicRc / AtomicWeak (C08, C09), checked for linearizability.

use circ::{Rc, Weak};

use crate::exec::{Body, Params, Program};
use crate::lin;
use crate::monitor::{Monitor, OpRec};
use crate::scen::ScenarioDef;
use crate::world::{Ctx, World};

pub static SCENARIOS: &[ScenarioDef] = &[
    ScenarioDef {
        name: "cell/concurrent",
        about: "2-3 threads x 1-2 operations on one AtomicRc; every complete history must be linearizable",
        build: concurrent,
    },
    ScenarioDef {
        name: "cell/wconcurrent",
        about: "2-3 threads x 1-2 operations on one AtomicWeak; every complete history must be linearizable",
        build: wconcurrent,
    },
];

fn body(f: impl FnOnce(&Ctx, &'static World) + Send + 'static) -> Body {
    Box::new(move |w| {
        let c = Ctx::new();
        f(&c, w)
    })
}

fn finish_lin(prop: &'static str, cell_id: i64, weak: bool) -> Box<dyn FnOnce(&mut Monitor)> {
    Box::new(move |m: &mut Monitor| {
        let ops: Vec<OpRec> = m
            .hist
            .iter()
            .filter(|o| {
                o.args[0] == cell_id
                    && o.resp != 0
                    && (if weak {
                        ["wload", "wstore", "wswap", "wcas", "wcas_weak", "wcas_tag"].contains(&o.kind)
                    } else {
                        ["load", "store", "swap", "cas", "cas_weak", "cas_tag"].contains(&o.kind)
                    })
            })
            .cloned()
            .collect();
        m.cover("history-checked");
        if lin::linearizable(&ops, 0i64, &lin::cell_step).is_none() {
            m.violate(
                prop,
                "not-linearizable",
                format!(
                    "no linearization of the history on the cell is a legal run of a (pointer, tag) cell: {}",
                    lin::describe(&ops)
                ),
            );
        }
    })
}

fn load_cas(slot: usize) -> Body {
    body(move |c, w| {
        let des = w.rc[slot].take();
        let g = c.pin();
        let s = c.load(&w.roots[0], &g);
        match c.cas(&w.roots[0], s, des, &g, false) {
            Ok(old) => c.drop_rc(old),
            Err((des, _)) => c.drop_rc(des),
        }
        c.unpin(g);
    })
}

pub const CELL_LETTERS: i64 = 11;

pub fn gen_cell_cases(k1: usize, k2: usize) -> i64 {
    CELL_LETTERS.pow((k1 + k2) as u32)
}

fn decode(mut idx: i64, k: usize) -> Vec<u8> {
    let mut v = vec![];
    for _ in 0..k {
        v.push((idx % CELL_LETTERS) as u8);
        idx /= CELL_LETTERS;
    }
    v
}

/// Generated family on one AtomicRc: masters x, y, z live in rc slots 0..3 (never consumed), the
/// cell holds x written one round earlier. Each thread runs its letters under one guard.
fn gen_concurrent(p: &Params) -> Program {
    let k1 = p.get("k1", 1) as usize;
    let k2 = p.get("k2", 2) as usize;
    let case = p.get("case", 0);
    let p1 = decode(case % CELL_LETTERS.pow(k1 as u32), k1);
    let p2 = decode(case / CELL_LETTERS.pow(k1 as u32), k2);
    let run = |prog: Vec<u8>| {
        body(move |c, w| {
            let g = c.pin();
            let cell = &w.roots[0];
            let mut last = crate::world::TS { s: circ::Snapshot::null(), gid: g.gid };
            fn finish<'a>(c: &Ctx, r: Result<Rc<crate::world::Node>, (Rc<crate::world::Node>, crate::world::TS<'a>)>) -> Option<crate::world::TS<'a>> {
                match r {
                    Ok(old) => {
                        c.drop_rc(old);
                        None
                    }
                    Err((des, cur)) => {
                        c.drop_rc(des);
                        Some(cur)
                    }
                }
            }
            for op in prog {
                match op {
                    0 => last = c.load(cell, &g),
                    1 => c.store(cell, c.clone_rc(w.rc[0].get()), &g),
                    2 => c.store(cell, c.clone_rc(w.rc[1].get()), &g),
                    3 => c.store(cell, Rc::null(), &g),
                    4 => {
                        let old = c.swap(cell, c.clone_rc(w.rc[1].get()));
                        c.drop_rc(old);
                    }
                    5 => {
                        if let Some(cur) = finish(c, c.cas(cell, last, c.clone_rc(w.rc[1].get()), &g, false)) {
                            last = cur;
                        }
                    }
                    6 => {
                        let exp = crate::world::TS { s: w.rc[0].get().snapshot(&g.g), gid: g.gid };
                        if let Some(cur) = finish(c, c.cas(cell, exp, c.clone_rc(w.rc[2].get()), &g, false)) {
                            last = cur;
                        }
                    }
                    7 => {
                        if let Err((_, cur)) = c.cas_tag(cell, last, 1, &g) {
                            last = cur;
                        }
                    }
                    8 => {
                        circ::verif::try_advance();
                    }
                    10 => {
                        // the weak variant with an expected value whose stamp differs from the
                        // content's: its retry path
                        let exp = crate::world::TS { s: w.rc[0].get().snapshot(&g.g), gid: g.gid };
                        if let Some(cur) = finish(c, c.cas(cell, exp, c.clone_rc(w.rc[2].get()), &g, true)) {
                            last = cur;
                        }
                    }
                    _ => {
                        let des = c.clone_rc(w.rc[0].get()).with_tag(1);
                        if let Some(cur) = finish(c, c.cas(cell, last, des, &g, false)) {
                            last = cur;
                        }
                    }
                }
            }
            c.unpin(g);
        })
    };
    Program {
        e0: p.get("e0", 0) as usize,
        classes: p.get("classes", crate::sched::RC as i64) as u8,
        setup: Some(body(|c, w| {
            let x = c.new_node(1);
            let g = c.pin();
            c.store(&w.roots[0], c.clone_rc(&x), &g);
            c.unpin(g);
            w.rc[0].put(x);
            w.rc[1].put(c.new_node(2));
            w.rc[2].put(c.new_node(3));
            c.round();
        })),
        threads: vec![run(p1), run(p2)],
        finish: Some(finish_lin("C08", 1, false)),
        claim: Some("C08"),
        ..Default::default()
    }
}

/// The same on one AtomicWeak; expected values come from the cell, from a Snapshot loaded from an
/// AtomicRc written at another epoch, and stored values include a Weak that carries that stamp.
fn gen_wconcurrent(p: &Params) -> Program {
    let k1 = p.get("k1", 1) as usize;
    let k2 = p.get("k2", 2) as usize;
    let case = p.get("case", 0);
    let p1 = decode(case % CELL_LETTERS.pow(k1 as u32), k1);
    let p2 = decode(case / CELL_LETTERS.pow(k1 as u32), k2);
    let run = |prog: Vec<u8>| {
        body(move |c, w| {
            let g = c.pin();
            let cell = &w.wroots[0];
            let mut last = crate::world::TWS { s: circ::WeakSnapshot::null(), gid: g.gid };
            fn finish<'a>(c: &Ctx, r: Result<Weak<crate::world::Node>, (Weak<crate::world::Node>, crate::world::TWS<'a>)>) -> Option<crate::world::TWS<'a>> {
                match r {
                    Ok(old) => {
                        c.wdrop(old);
                        None
                    }
                    Err((des, cur)) => {
                        c.wdrop(des);
                        Some(cur)
                    }
                }
            }
            for op in prog {
                match op {
                    0 => last = c.wload(cell, &g),
                    1 => c.wstore(cell, c.wclone(w.weak[0].get()), &g),
                    2 => c.wstore(cell, c.wclone(w.weak[1].get()), &g),
                    3 => c.wstore(cell, Weak::null(), &g),
                    4 => {
                        let old = c.wswap(cell, c.wclone(w.weak[1].get()));
                        c.wdrop(old);
                    }
                    5 => {
                        if let Some(cur) = finish(c, c.wcas(cell, last, c.wclone(w.weak[1].get()), &g, false)) {
                            last = cur;
                        }
                    }
                    6 => {
                        let s = c.load(&w.roots[1], &g);
                        let exp = c.sdowngrade(s);
                        if let Some(cur) = finish(c, c.wcas(cell, exp, c.wclone(w.weak[2].get()), &g, false)) {
                            last = cur;
                        }
                    }
                    7 => {
                        if let Err((_, cur)) = c.wcas_tag(cell, last, 1, &g) {
                            last = cur;
                        }
                    }
                    8 => {
                        let s = c.load(&w.roots[1], &g);
                        let stamped = c.ws_counted(c.sdowngrade(s));
                        c.wstore(cell, stamped, &g);
                    }
                    10 => {
                        let s = c.load(&w.roots[1], &g);
                        let exp = c.sdowngrade(s);
                        if let Some(cur) = finish(c, c.wcas(cell, exp, c.wclone(w.weak[2].get()), &g, true)) {
                            last = cur;
                        }
                    }
                    _ => {
                        let des = c.wclone(w.weak[0].get()).with_tag(1);
                        if let Some(cur) = finish(c, c.wcas(cell, last, des, &g, false)) {
                            last = cur;
                        }
                    }
                }
            }
            c.unpin(g);
        })
    };
    Program {
        e0: p.get("e0", 0) as usize,
        classes: p.get("classes", crate::sched::RC as i64) as u8,
        setup: Some(body(|c, w| {
            let x = c.new_node(1);
            let y = c.new_node(2);
            let z = c.new_node(3);
            let g = c.pin();
            c.wstore(&w.wroots[0], c.downgrade(&x), &g);
            c.unpin(g);
            c.round();
            let g = c.pin();
            c.store(&w.roots[1], c.clone_rc(&x), &g);
            c.unpin(g);
            w.weak[0].put(c.downgrade(&x));
            w.weak[1].put(c.downgrade(&y));
            w.weak[2].put(c.downgrade(&z));
            w.rc[0].put(x);
            w.rc[1].put(y);
            w.rc[2].put(z);
            c.round();
        })),
        threads: vec![run(p1), run(p2)],
        finish: Some(finish_lin("C09", 4, true)),
        claim: Some("C09"),
        ..Default::default()
    }
}

fn concurrent(p: &Params) -> Program {
    if p.get("gen", 0) != 0 {
        return gen_concurrent(p);
    }
    let prog = p.get("prog", 0);
    let threads: Vec<Body> = match prog {
        0 => vec![
            load_cas(1),
            body(|c, w| {
                // the same pointer goes back under a newer stamp
                let r = c.swap(&w.roots[0], Rc::null());
                circ::verif::try_advance();
                let g = c.pin();
                c.store(&w.roots[0], r, &g);
                c.unpin(g);
            }),
        ],
        1 => vec![load_cas(1), load_cas(2)],
        2 => vec![
            body(|c, w| {
                let y = w.rc[1].take();
                let g = c.pin();
                c.store(&w.roots[0], y, &g);
                c.unpin(g);
            }),
            body(|c, w| {
                let z = w.rc[2].take();
                let old = c.swap(&w.roots[0], z);
                c.drop_rc(old);
            }),
            body(|c, w| {
                let g = c.pin();
                let _ = c.load(&w.roots[0], &g);
                let _ = c.load(&w.roots[0], &g);
                c.unpin(g);
            }),
        ],
        3 => {
            let tagger = |t: usize| {
                body(move |c, w| {
                    let g = c.pin();
                    let s = c.load(&w.roots[0], &g);
                    let _ = c.cas_tag(&w.roots[0], s, t, &g);
                    c.unpin(g);
                })
            };
            vec![tagger(1), tagger(2), load_cas(1)]
        }
        // a tag CAS whose expected value goes stale in its stamp only, twice: two other threads
        // re-store the very same pointer in two later epochs, one before each attempt
        5 => {
            // (the cell was written in the set-up epoch; the tagger is pinned one epoch later, so
            // the first re-store carries its epoch and the second, after the one advance a pinned
            // thread permits, the next one)
            let restore = |advance: bool| {
                body(move |c, w| {
                    if advance {
                        circ::verif::try_advance();
                    }
                    let x = c.clone_rc(w.rc[3].get());
                    let g = c.pin();
                    c.store(&w.roots[0], x, &g);
                    c.unpin(g);
                })
            };
            vec![
                body(|c, w| {
                    let g = c.pin();
                    let s = c.load(&w.roots[0], &g);
                    let _ = c.cas_tag(&w.roots[0], s, 1, &g);
                    c.unpin(g);
                }),
                restore(false),
                restore(true),
            ]
        }
        _ => vec![
            body(|c, w| {
                let y = w.rc[1].take();
                let g = c.pin();
                let s = c.load(&w.roots[0], &g);
                match c.cas(&w.roots[0], s, y, &g, true) {
                    Ok(old) => c.drop_rc(old),
                    Err((des, _)) => c.drop_rc(des),
                }
                c.unpin(g);
            }),
            body(|c, w| {
                let x1 = w.rc[2].take().with_tag(1);
                let g = c.pin();
                c.store(&w.roots[0], x1, &g);
                let _ = c.load(&w.roots[0], &g);
                c.unpin(g);
            }),
        ],
    };
    Program {
        e0: p.get("e0", 0) as usize,
        classes: p.get("classes", crate::sched::RC as i64) as u8,
        setup: Some(body(move |c, w| {
            let x = c.new_node(1);
            if prog == 4 {
                w.rc[2].put(c.clone_rc(&x));
            } else {
                w.rc[2].put(c.new_node(3));
            }
            w.rc[3].put(c.clone_rc(&x));
            let g = c.pin();
            c.store(&w.roots[0], x, &g);
            c.unpin(g);
            w.rc[1].put(c.new_node(2));
            c.round();
        })),
        threads,
        finish: Some(finish_lin("C08", 1, false)),
        claim: Some("C08"),
        ..Default::default()
    }
}

fn wconcurrent(p: &Params) -> Program {
    if p.get("gen", 0) != 0 {
        return gen_wconcurrent(p);
    }
    let prog = p.get("prog", 0);
    let wload_cas = |slot: usize| {
        body(move |c, w| {
            let des = w.weak[slot].take();
            let g = c.pin();
            let s = c.wload(&w.wroots[0], &g);
            match c.wcas(&w.wroots[0], s, des, &g, false) {
                Ok(old) => c.wdrop(old),
                Err((des, _)) => c.wdrop(des),
            }
            c.unpin(g);
        })
    };
    let threads: Vec<Body> = match prog {
        0 => vec![
            wload_cas(1),
            body(|c, w| {
                let r = c.wswap(&w.wroots[0], Weak::null());
                let g = c.pin();
                c.wstore(&w.wroots[0], r, &g);
                c.unpin(g);
            }),
        ],
        1 => vec![wload_cas(1), wload_cas(2)],
        3 => vec![
            // the cell holds x unstamped, the expected value is x stamped; while the exchange
            // retries, another thread stores x again carrying exactly the expected value's stamp
            body(|c, w| {
                let des = w.weak[1].take();
                let g = c.pin();
                let s = c.load(&w.roots[1], &g);
                let exp = c.sdowngrade(s);
                match c.wcas(&w.wroots[0], exp, des, &g, false) {
                    Ok(old) => c.wdrop(old),
                    Err((des, _)) => c.wdrop(des),
                }
                c.unpin(g);
            }),
            body(|c, w| {
                let g = c.pin();
                let s = c.load(&w.roots[1], &g);
                let stamped = c.ws_counted(c.sdowngrade(s));
                c.wstore(&w.wroots[0], stamped, &g);
                c.unpin(g);
            }),
        ],
        _ => vec![
            // expected value obtained from an AtomicRc written at another epoch
            body(|c, w| {
                let des = w.weak[1].take();
                let g = c.pin();
                let s = c.load(&w.roots[1], &g);
                let exp = c.sdowngrade(s);
                match c.wcas(&w.wroots[0], exp, des, &g, false) {
                    Ok(old) => c.wdrop(old),
                    Err((des, _)) => c.wdrop(des),
                }
                c.unpin(g);
            }),
            body(|c, w| {
                let g = c.pin();
                let _ = c.wload(&w.wroots[0], &g);
                let t = c.wload(&w.wroots[0], &g);
                let _ = c.wcas_tag(&w.wroots[0], t, 1, &g);
                c.unpin(g);
            }),
        ],
    };
    Program {
        e0: p.get("e0", 0) as usize,
        classes: p.get("classes", crate::sched::RC as i64) as u8,
        setup: Some(body(|c, w| {
            let x = c.new_node(1);
            let y = c.new_node(2);
            let z = c.new_node(3);
            let g = c.pin();
            c.wstore(&w.wroots[0], c.downgrade(&x), &g);
            c.store(&w.roots[1], c.clone_rc(&x), &g);
            c.unpin(g);
            w.weak[1].put(c.downgrade(&y));
            w.weak[2].put(c.downgrade(&z));
            w.rc[0].put(x);
            w.rc[1].put(y);
            w.rc[2].put(z);
            c.round();
        })),
        threads,
        finish: Some(finish_lin("C09", 4, true)),
        claim: Some("C09"),
        ..Default::default()
    }
}
