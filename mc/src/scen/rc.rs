//! Scenarios on the reference-counting layer (C01-C05).
//!
//! Conventions: `R` = one round (`cs(); flush(); drop`). The setup phase is sequential and leaves
//! the world one round short of the interesting event, so that the concurrent programs stay
//! short. Whatever a thread wants to keep beyond the concurrent phase goes into a world slot; the
//! post phase dereferences it after more rounds, and the common epilogue releases everything and
//! drains.

use circ::{Rc, Weak};

use crate::exec::{Body, Params, Program};
use crate::scen::ScenarioDef;
use crate::monitor::mon;
use crate::world::{Ctx, Node, World};

macro_rules! scen {
    ($name:expr, $f:ident, $about:expr) => {
        ScenarioDef {
            name: $name,
            about: $about,
            build: $f,
        }
    };
}

pub static SCENARIOS: &[ScenarioDef] = &[
    scen!("rc/upgrade-vs-attempt", upgrade_vs_attempt,
        "Weak::upgrade of an object at count 0 races the pending destruction attempt; the upgraded Rc is held through the drain"),
    scen!("rc/two-upgraders", two_upgraders,
        "two Weak::upgrade calls race each other and the pending attempt"),
    scen!("rc/counted-vs-last-drop", counted_vs_last_drop,
        "Snapshot::counted under a guard races the removal and drop of the last strong owner"),
    scen!("rc/counted-on-cascade-child", counted_on_cascade_child,
        "a reader counts a child reached through its parent while the parent is unlinked and reclaimed"),
    scen!("rc/transfer", transfer,
        "compare_exchange, swap and load+counted race on one link; every result is used after a drain"),
    scen!("rc/dag-shared-child", dag_shared_child,
        "two parents sharing a child are released concurrently; both cascades reach the child"),
    scen!("rc/upgrade-vs-cascade-child", upgrade_vs_cascade_child,
        "Weak::upgrade of a cascade child races the reclamation of its parent"),
    scen!("rc/reader-vs-root-reclaim", reader_vs_root_reclaim,
        "a reader dereferences a loaded Snapshot while another thread unlinks the object and runs rounds"),
    scen!("rc/reader-second-path", reader_second_path,
        "a reader holds a cascade child loaded through a second link that is removed while the parent's cascade runs"),
    scen!("rc/stalled-dropper", stalled_dropper,
        "an Rc drop stalls between reading the epoch and publishing its decrement while a link to the same child is removed and the parent's cascade runs"),
    scen!("rc/reader-flushes", reader_flushes,
        "a reader flushes (or drops 64 Rcs) twice inside the critical section in which it uses a Snapshot, while the object is unlinked and three other threads run one round each"),
    scen!("rc/failed-cas-current", failed_cas_current,
        "the `current` Snapshot of a failed compare_exchange is used while the object is unlinked and reclaimed"),
    scen!("rc/snapshot-then-drop", snapshot_then_drop,
        "Rc::snapshot followed by dropping that Rc inside the critical section, on a cascade child"),
    scen!("rc/ws-upgrade-vs-attempt", ws_upgrade_vs_attempt,
        "WeakSnapshot::upgrade of an object at count 0 with a nearly ripe attempt"),
    scen!("rc/ws-upgrade-vs-cascade-child", ws_upgrade_vs_cascade_child,
        "WeakSnapshot::upgrade of a cascade child races the reclamation of its parent"),
    scen!("rc/reactivate", reactivate,
        "Guard::reactivate ends the protection of earlier snapshots and protects later ones"),
    scen!("rc/link-into-unlinked", link_into_unlinked,
        "a new node is linked into an already unlinked node and loaded through it before that node is destructed"),
    scen!("rc/weak-holder", weak_holder,
        "a Weak is used (upgrade, clone, drop) while the last strong owner goes away and the object is destructed"),
    scen!("rc/weak-through-zero", weak_through_zero,
        "the weak count falls to zero and is re-incremented from a WeakSnapshot"),
    scen!("rc/last-weak-vs-destruct", last_weak_vs_destruct,
        "the last Weak is dropped while the object's destruction releases the implicit weak share"),
    scen!("rc/bulk-shares", bulk_shares,
        "shares of Rc::new_many / Rc::new_many_iter are released by two threads concurrently with rounds"),
    scen!("rc/weak-many-shares", weak_many_shares,
        "weak shares from Rc::weak_many are released by two threads while the object is destructed"),
    scen!("rc/long-disposal", long_disposal,
        "C14: a cascade over more than 128 nodes re-pins the reclaiming thread in the middle while another thread is pinned"),
    scen!("rc/concurrent-release", concurrent_release,
        "two threads release the last two handles of one graph concurrently"),
    scen!("rc/handover-into-reclaimed", handover_into_reclaimed,
        "C02: a thread that took Rc::snapshot of a fresh object hands the Rc to a reader, which swaps it into a link of a node that a stalled dropper has left with a stale stamp and that is reclaimed by its parent's cascade: only the link's own stamp protects the fresh object"),
    scen!("rc/long-cascade", long_cascade,
        "C02/C12: one cascade over 420 nodes during which the epoch advances three times (the cascade re-pins every 128 nodes); a reader takes node 400 through a side link, removes that link (stamping the node in the current epoch) and keeps its Snapshot while the cascade arrives"),
    scen!("rc/destructor-reader", destructor_reader,
        "C02: the destructor of a reclaimed object works under a guard of its own: it loads a Snapshot of the object in roots[0] and keeps using it while it flushes three times; meanwhile another thread removes that object from roots[0] and three more threads move the epoch on"),
    scen!("rc/first-downgrade", first_downgrade,
        "C03: two threads downgrade an object that never had a weak pointer (the flag-setting CAS of one loses) while a third clones and drops strong references"),
    scen!("rc/latency-vs-holder", latency_vs_holder,
        "C06: the head of an aged chain of n nodes is dropped while another thread releases its handle to node k; afterwards all n nodes must be destructed within the grace-period bound"),
];

/// advances the global epoch once without flushing or collecting anything
fn cv_try_advance() {
    circ::verif::try_advance();
}

fn base(p: &Params) -> Program {
    Program {
        e0: p.get("e0", 0) as usize,
        classes: p.get("classes", crate::sched::RC as i64) as u8,
        claim: crate::exec::claim_of(p),
        ..Default::default()
    }
}

fn body(f: impl FnOnce(&Ctx, &'static World) + Send + 'static) -> Body {
    Box::new(move |w| {
        let c = Ctx::new();
        f(&c, w)
    })
}

fn rounds_thread(k: usize) -> Body {
    body(move |c, _| c.rounds(k))
}

/// root[r] -> p -> c with the links written `age` rounds ago; returns nothing, p and c are only
/// reachable through the root.
fn build_chain2(c: &Ctx, w: &'static World, r: usize, age: usize) {
    let g = c.pin();
    let child = c.new_node(20 + r as u32);
    let parent = c.new_node(10 + r as u32);
    c.store(&c.node(&parent).next[0], child, &g);
    c.store(&w.roots[r], parent, &g);
    c.unpin(g);
    c.rounds(age);
}

// ------------------------------------------------------------------------------------ C01

fn upgrade_vs_attempt(p: &Params) -> Program {
    let pre = p.get("pre", 2) as usize;
    let dist = p.get("dist", 0) as usize;
    Program {
        setup: Some(body(move |c, w| {
            let x = c.new_node(1);
            let wk = c.downgrade(&x);
            c.drop_rc(x);
            for _ in 0..dist.saturating_sub(pre) {
                cv_try_advance();
            }
            c.rounds(pre);
            w.weak[0].put(wk);
        })),
        threads: vec![
            body(|c, w| {
                let wk = w.weak[0].take();
                if let Some(r) = c.upgrade(&wk) {
                    c.deref(&r);
                    w.rc[0].put(r);
                }
                w.weak[0].put(wk);
            }),
            rounds_thread(3),
        ],
        post: Some(body(|c, w| {
            c.rounds(14);
            if w.rc[0].is_some() {
                c.deref(w.rc[0].get());
            }
        })),
        ..base(p)
    }
}

fn two_upgraders(p: &Params) -> Program {
    let pre = p.get("pre", 2) as usize;
    let up = |slot: usize| {
        body(move |c, w| {
            let wk = w.weak[slot].take();
            if let Some(r) = c.upgrade(&wk) {
                c.deref(&r);
                w.rc[slot].put(r);
            }
            c.wdrop(wk);
        })
    };
    Program {
        setup: Some(body(move |c, w| {
            let x = c.new_node(1);
            let wk = c.downgrade(&x);
            let wk2 = c.wclone(&wk);
            c.drop_rc(x);
            c.rounds(pre);
            w.weak[0].put(wk);
            w.weak[1].put(wk2);
        })),
        threads: vec![up(0), up(1), rounds_thread(2)],
        post: Some(body(|c, w| {
            c.rounds(10);
            for i in 0..2 {
                if w.rc[i].is_some() {
                    c.deref(w.rc[i].get());
                }
            }
            // Release one of them first and keep using the other.
            if let Some(r) = w.rc[0].try_take() {
                c.drop_rc(r);
                c.rounds(8);
            }
            if w.rc[1].is_some() {
                c.deref(w.rc[1].get());
            }
        })),
        ..base(p)
    }
}

fn counted_vs_last_drop(p: &Params) -> Program {
    let age = p.get("age", 0) as usize;
    Program {
        setup: Some(body(move |c, w| {
            let g = c.pin();
            let x = c.new_node(1);
            c.store(&w.roots[0], x, &g);
            c.unpin(g);
            c.rounds(age);
        })),
        threads: vec![
            body(|c, w| {
                let g = c.pin();
                let s = c.load(&w.roots[0], &g);
                if !s.s.is_null() {
                    let r = c.counted(s);
                    c.unpin(g);
                    c.deref(&r);
                    w.rc[0].put(r);
                } else {
                    c.unpin(g);
                }
            }),
            body(|c, w| {
                let y = c.swap(&w.roots[0], Rc::null());
                c.drop_rc(y);
                c.rounds(4);
            }),
        ],
        post: Some(body(|c, w| {
            c.rounds(12);
            if w.rc[0].is_some() {
                c.deref(w.rc[0].get());
            }
        })),
        ..base(p)
    }
}

fn counted_on_cascade_child(p: &Params) -> Program {
    let age = p.get("age", 4) as usize;
    Program {
        setup: Some(body(move |c, w| build_chain2(c, w, 0, age))),
        threads: vec![
            body(|c, w| {
                let g = c.pin();
                let ps = c.load(&w.roots[0], &g);
                if !ps.s.is_null() {
                    let cs = c.load(&c.snode(ps).next[0], &g);
                    let r = c.counted(cs);
                    c.unpin(g);
                    w.rc[0].put(r);
                } else {
                    c.unpin(g);
                }
            }),
            body(|c, w| {
                let g = c.pin();
                c.store(&w.roots[0], Rc::null(), &g);
                c.unpin(g);
                c.rounds(5);
            }),
        ],
        post: Some(body(|c, w| {
            c.rounds(12);
            if w.rc[0].is_some() {
                c.deref(w.rc[0].get());
            }
        })),
        ..base(p)
    }
}

fn transfer(p: &Params) -> Program {
    let third = p.get("third", 1) != 0;
    let mut threads: Vec<Body> = vec![
        body(|c, w| {
            // CAS(root, expected = x as seen now, desired = y)
            let y = w.rc[1].take();
            let g = c.pin();
            let exp = c.load(&w.roots[0], &g);
            match c.cas(&w.roots[0], exp, y, &g, false) {
                Ok(old) => w.rc[2].put(old),
                Err((des, _cur)) => w.rc[1].put(des),
            }
            c.unpin(g);
            c.round();
        }),
        body(|c, w| {
            let v = w.rc[3].take();
            let z = c.swap(&w.roots[0], v);
            w.rc[4].put(z);
            c.round();
        }),
    ];
    if third {
        threads.push(body(|c, w| {
            let g = c.pin();
            let s = c.load(&w.roots[0], &g);
            let r = c.counted(s);
            c.unpin(g);
            w.rc[5].put(r);
        }));
    }
    Program {
        setup: Some(body(|c, w| {
            let g = c.pin();
            let x = c.new_node(1);
            c.store(&w.roots[0], x, &g);
            c.unpin(g);
            w.rc[1].put(c.new_node(2));
            w.rc[3].put(c.new_node(3));
            c.rounds(1);
        })),
        threads,
        post: Some(body(|c, w| {
            c.rounds(10);
            for i in 0..6 {
                if w.rc[i].is_some() {
                    c.deref(w.rc[i].get());
                }
            }
            let g = c.pin();
            let s = c.load(&w.roots[0], &g);
            c.sderef(s);
            c.unpin(g);
        })),
        ..base(p)
    }
}

fn dag_shared_child(p: &Params) -> Program {
    let age = p.get("age", 4) as usize;
    let rel = |slot: usize| {
        body(move |c, w| {
            let r = w.rc[slot].take();
            c.drop_rc(r);
            c.rounds(4);
        })
    };
    Program {
        setup: Some(body(move |c, w| {
            let g = c.pin();
            let child = c.new_node(3);
            let p1 = c.new_node(1);
            let p2 = c.new_node(2);
            let child2 = c.clone_rc(&child);
            c.store(&c.node(&p1).next[0], child, &g);
            c.store(&c.node(&p2).next[1], child2, &g);
            c.unpin(g);
            c.rounds(age);
            w.rc[0].put(p1);
            w.rc[1].put(p2);
        })),
        threads: vec![rel(0), rel(1)],
        ..base(p)
    }
}

fn upgrade_vs_cascade_child(p: &Params) -> Program {
    let age = p.get("age", 4) as usize;
    let pre = p.get("pre", 2) as usize;
    Program {
        setup: Some(body(move |c, w| {
            build_chain2(c, w, 0, age);
            // weak to the child
            let g = c.pin();
            let ps = c.load(&w.roots[0], &g);
            let cs = c.load(&c.snode(ps).next[0], &g);
            let rc = c.counted(cs);
            c.unpin(g);
            let wk = c.downgrade(&rc);
            c.drop_rc(rc);
            c.rounds(age);
            // unlink the parent; its attempt is left one round short of ripe
            let g = c.pin();
            c.store(&w.roots[0], Rc::null(), &g);
            c.unpin(g);
            c.rounds(pre);
            w.weak[0].put(wk);
        })),
        threads: vec![
            body(|c, w| {
                let wk = w.weak[0].take();
                if let Some(r) = c.upgrade(&wk) {
                    c.deref(&r);
                    w.rc[0].put(r);
                }
                w.weak[0].put(wk);
            }),
            rounds_thread(2),
        ],
        post: Some(body(|c, w| {
            c.rounds(12);
            if w.rc[0].is_some() {
                c.deref(w.rc[0].get());
            }
            // A later upgrade must agree with what happened to the child.
            let wk = w.weak[0].take();
            if let Some(r) = c.upgrade(&wk) {
                c.deref(&r);
                c.drop_rc(r);
            }
            c.wdrop(wk);
        })),
        ..base(p)
    }
}

// ------------------------------------------------------------------------------------ C02

fn reader_vs_root_reclaim(p: &Params) -> Program {
    let age = p.get("age", 0) as usize;
    Program {
        setup: Some(body(move |c, w| {
            let g = c.pin();
            let x = c.new_node(1);
            c.store(&w.roots[0], x, &g);
            c.unpin(g);
            c.rounds(age);
        })),
        threads: vec![
            body(|c, w| {
                let g = c.pin();
                let s = c.load(&w.roots[0], &g);
                c.sderef(s);
                c.sderef(s);
                c.unpin(g);
            }),
            body(|c, w| {
                let g = c.pin();
                c.store(&w.roots[0], Rc::null(), &g);
                c.unpin(g);
                c.rounds(5);
            }),
        ],
        ..base(p)
    }
}

/// root0 -> p -> c and root1 -> c. The setup unlinks p and leaves its attempt `pre` rounds old.
fn second_path_setup(c: &Ctx, w: &'static World, age: usize, pre: usize) {
    build_chain2(c, w, 0, 0);
    let g = c.pin();
    let ps = c.load(&w.roots[0], &g);
    let cs = c.load(&c.snode(ps).next[0], &g);
    let rc = c.counted(cs);
    c.store(&w.roots[1], rc, &g);
    c.unpin(g);
    c.rounds(age);
    let g = c.pin();
    c.store(&w.roots[0], Rc::null(), &g);
    c.unpin(g);
    c.rounds(pre);
}

fn reader_second_path(p: &Params) -> Program {
    let age = p.get("age", 4) as usize;
    let pre = p.get("pre", 2) as usize;
    Program {
        setup: Some(body(move |c, w| second_path_setup(c, w, age, pre))),
        threads: vec![
            body(|c, w| {
                let g = c.pin();
                let s = c.load(&w.roots[1], &g);
                c.sderef(s);
                c.sderef(s);
                c.unpin(g);
            }),
            rounds_thread(2),
            body(|c, w| {
                let g = c.pin();
                c.store(&w.roots[1], Rc::null(), &g);
                c.unpin(g);
            }),
        ],
        ..base(p)
    }
}

fn stalled_dropper(p: &Params) -> Program {
    // root0 -> p -> c, root1 -> c, and an extra Rc r to c.
    let age = p.get("age", 4) as usize;
    let k = p.get("k", 3) as usize;
    let split = p.get("split", 0) != 0;
    // the reader gets at c through a weak link and WeakSnapshot::upgrade (which stamps c) instead
    // of loading it from the second strong link
    let viaweak = p.get("viaweak", 0) != 0;
    Program {
        setup: Some(body(move |c, w| {
            build_chain2(c, w, 0, 0);
            let g = c.pin();
            let ps = c.load(&w.roots[0], &g);
            let cs = c.load(&c.snode(ps).next[0], &g);
            let rc = c.counted(cs);
            let extra = c.clone_rc(&rc);
            if viaweak {
                c.wstore(&w.wroots[0], c.downgrade(&rc), &g);
            }
            c.store(&w.roots[1], rc, &g);
            c.unpin(g);
            w.rc[0].put(extra);
            c.rounds(age);
        })),
        threads: vec![
            // the dropper: may stall between its epoch read and its CAS
            body(|c, w| {
                let r = w.rc[0].take();
                c.drop_rc(r);
            }),
            // advances the clock, unlinks p, leaves p's attempt one round short (with `split`, the
            // second of the two rounds is a thread of its own, so that the dropper can read the
            // epoch between them without costing a preemption: a *pinned* dropper whose stamp
            // is one epoch behind, followed by one more advance, is the case the third epoch of
            // the age threshold exists for)
            body(move |c, w| {
                c.rounds(k);
                let g = c.pin();
                c.store(&w.roots[0], Rc::null(), &g);
                c.unpin(g);
                c.rounds(if split { 1 } else { 2 });
            }),
            // the reader, through the second link
            body(move |c, w| {
                let g = c.pin();
                if viaweak {
                    let ws = c.wload(&w.wroots[0], &g);
                    if let Some(s) = c.ws_upgrade(ws) {
                        c.sderef(s);
                        c.sderef(s);
                    }
                } else {
                    let s = c.load(&w.roots[1], &g);
                    c.sderef(s);
                    c.sderef(s);
                }
                c.unpin(g);
            }),
            // removes the second link
            body(|c, w| {
                let g = c.pin();
                c.store(&w.roots[1], Rc::null(), &g);
                c.unpin(g);
            }),
            // runs p's attempt (and the cascade)
            rounds_thread(1),
        ]
        .into_iter()
        .chain(if split { Some(rounds_thread(1)) } else { None })
        .collect(),
        ..base(p)
    }
}

/// root0 -> p -> c, root1 -> c, an extra Rc to c. Needs three preemptions (the dropper between
/// its epoch read and its CAS, the reader between its load and the hand-over, the creator between
/// the hand-over and its dereference); everything else is arranged so that threads run to
/// completion in order.
fn handover_into_reclaimed(p: &Params) -> Program {
    let age = p.get("age", 4) as usize;
    Program {
        // (the three interruptions it needs are at an epoch read and at two dereferences of the
        // driver: the points at link accesses are left out to keep the space small)
        classes: p.get("classes", ((1 << crate::sched::CLASS_STATE) | (1 << crate::sched::CLASS_EPOCH_READ)) as i64) as u8,
        setup: Some(body(move |c, w| {
            build_chain2(c, w, 0, 0);
            let g = c.pin();
            let ps = c.load(&w.roots[0], &g);
            let cs = c.load(&c.snode(ps).next[0], &g);
            let rc = c.counted(cs);
            let extra = c.clone_rc(&rc);
            c.store(&w.roots[1], rc, &g);
            c.unpin(g);
            w.rc[0].put(extra);
            c.rounds(age);
        })),
        threads: vec![
            // the dropper (stalls between epoch read and CAS), then one round
            body(|c, w| {
                let r = w.rc[0].take();
                c.drop_rc(r);
                c.round();
            }),
            // unlinks p (its attempt is ripe three epochs later), then reads c through the second
            // link, waits for the fresh object and links it below c; its last round runs the
            // cascade
            body(|c, w| {
                let g = c.pin();
                c.store(&w.roots[0], Rc::null(), &g);
                c.flush(&g);
                c.unpin(g);
                let g = c.pin();
                let s = c.load(&w.roots[1], &g);
                if !s.s.is_null() {
                    c.sderef(s);
                    if let Some(b) = w.rc[4].try_take() {
                        let old = c.swap(&c.snode(s).next[0], b);
                        c.drop_rc(old);
                    }
                }
                c.unpin(g);
                c.round();
            }),
            // removes the second link
            body(|c, w| {
                let g = c.pin();
                c.store(&w.roots[1], Rc::null(), &g);
                c.unpin(g);
            }),
            // creates the fresh object, keeps a Snapshot of it, hands the Rc over
            body(|c, w| {
                let g = c.pin();
                let b = c.new_node(30);
                let sb = c.snapshot(&b, &g);
                w.rc[4].put(b);
                c.sderef(sb);
                c.sderef(sb);
                c.unpin(g);
                if let Some(b) = w.rc[4].try_take() {
                    c.drop_rc(b);
                }
            }),
        ],
        ..base(p)
    }
}

fn reader_flushes(p: &Params) -> Program {
    // mode 0: Guard::flush(); 1: 64 strong decrements (the periodic flush of the counting layer)
    let mode = p.get("mode", 0);
    let age = p.get("age", 0) as usize;
    let one_round = || rounds_thread(1);
    Program {
        setup: Some(body(move |c, w| {
            let g = c.pin();
            let x = c.new_node(1);
            c.store(&w.roots[0], x, &g);
            c.unpin(g);
            if mode == 1 {
                w.rc[3].put(c.new_node(2));
            }
            c.rounds(age);
        })),
        threads: vec![
            body(move |c, w| {
                let g = c.pin();
                let s = c.load(&w.roots[0], &g);
                for _ in 0..2 {
                    c.sderef(s);
                    if mode == 0 {
                        c.flush(&g);
                    } else {
                        // the counting layer flushes on every `manual_interval`-th decrement; the
                        // interval is lowered to 2 so that two decrements stand for the usual 64
                        let y = w.rc[3].get();
                        for _ in 0..2 {
                            let cl = c.clone_rc(y);
                            c.drop_rc(cl);
                        }
                    }
                }
                c.sderef(s);
                c.sderef(s);
                c.unpin(g);
            }),
            body(|c, w| {
                let g = c.pin();
                c.store(&w.roots[0], Rc::null(), &g);
                c.unpin(g);
                c.round();
            }),
            one_round(),
            one_round(),
            one_round(),
        ],
        manual_interval: if mode == 1 { 2 } else { 64 },
        ..base(p)
    }
}

fn failed_cas_current(p: &Params) -> Program {
    Program {
        setup: Some(body(|c, w| {
            let g = c.pin();
            let x = c.new_node(1);
            c.store(&w.roots[0], x, &g);
            c.unpin(g);
            w.rc[1].put(c.new_node(2));
            c.rounds(1);
        })),
        threads: vec![
            body(|c, w| {
                let y = w.rc[1].take();
                let g = c.pin();
                let null = crate::world::TS {
                    s: circ::Snapshot::null(),
                    gid: g.gid,
                };
                match c.cas(&w.roots[0], null, y, &g, false) {
                    Ok(old) => c.drop_rc(old),
                    Err((des, cur)) => {
                        c.sderef(cur);
                        c.sderef(cur);
                        w.rc[1].put(des);
                    }
                }
                c.unpin(g);
            }),
            body(|c, w| {
                let g = c.pin();
                c.store(&w.roots[0], Rc::null(), &g);
                c.unpin(g);
                c.rounds(5);
            }),
        ],
        ..base(p)
    }
}

fn snapshot_then_drop(p: &Params) -> Program {
    // root0 -> p -> c plus an Rc r to c held by the reader; p is unlinked in the setup.
    let age = p.get("age", 4) as usize;
    let pre = p.get("pre", 2) as usize;
    Program {
        setup: Some(body(move |c, w| {
            build_chain2(c, w, 0, 0);
            let g = c.pin();
            let ps = c.load(&w.roots[0], &g);
            let cs = c.load(&c.snode(ps).next[0], &g);
            let rc = c.counted(cs);
            c.unpin(g);
            w.rc[0].put(rc);
            c.rounds(age);
            let g = c.pin();
            c.store(&w.roots[0], Rc::null(), &g);
            c.unpin(g);
            c.rounds(pre);
        })),
        threads: vec![
            body(|c, w| {
                let r = w.rc[0].take();
                let g = c.pin();
                let s = c.snapshot(&r, &g);
                c.drop_rc(r);
                c.sderef(s);
                c.sderef(s);
                c.unpin(g);
            }),
            rounds_thread(2),
        ],
        ..base(p)
    }
}

fn ws_upgrade_vs_attempt(p: &Params) -> Program {
    let pre = p.get("pre", 2) as usize;
    // dist > 0: the last decrement happened `dist` epochs before the setup ends, the attempt
    // staying in the dropping thread's unflushed bag meanwhile (dist = 16, 32: the 4-bit stamp of
    // that decrement aliases the epoch at which the reader upgrades)
    let dist = p.get("dist", 0) as usize;
    Program {
        setup: Some(body(move |c, w| {
            let x = c.new_node(1);
            let wk = c.downgrade(&x);
            let g = c.pin();
            c.wstore(&w.wroots[0], wk, &g);
            c.unpin(g);
            c.drop_rc(x);
            for _ in 0..dist.saturating_sub(pre) {
                cv_try_advance();
            }
            c.rounds(pre);
        })),
        threads: vec![
            body(|c, w| {
                let g = c.pin();
                let ws = c.wload(&w.wroots[0], &g);
                if let Some(s) = c.ws_upgrade(ws) {
                    c.sderef(s);
                    let r = c.counted(s);
                    c.sderef(s);
                    c.unpin(g);
                    c.deref(&r);
                    w.rc[0].put(r);
                } else {
                    c.unpin(g);
                }
            }),
            rounds_thread(3),
        ],
        post: Some(body(|c, w| {
            c.rounds(12);
            if w.rc[0].is_some() {
                c.deref(w.rc[0].get());
            }
        })),
        ..base(p)
    }
}

fn ws_upgrade_vs_cascade_child(p: &Params) -> Program {
    let age = p.get("age", 4) as usize;
    let pre = p.get("pre", 2) as usize;
    Program {
        setup: Some(body(move |c, w| {
            build_chain2(c, w, 0, age);
            let g = c.pin();
            let ps = c.load(&w.roots[0], &g);
            let cs = c.load(&c.snode(ps).next[0], &g);
            let rc = c.counted(cs);
            let wk = c.downgrade(&rc);
            c.wstore(&w.wroots[0], wk, &g);
            c.unpin(g);
            c.drop_rc(rc);
            c.rounds(age);
            let g = c.pin();
            c.store(&w.roots[0], Rc::null(), &g);
            c.unpin(g);
            c.rounds(pre);
        })),
        threads: vec![
            body(|c, w| {
                let g = c.pin();
                let ws = c.wload(&w.wroots[0], &g);
                if let Some(s) = c.ws_upgrade(ws) {
                    c.sderef(s);
                    c.sderef(s);
                }
                c.unpin(g);
            }),
            rounds_thread(2),
        ],
        ..base(p)
    }
}

fn reactivate(p: &Params) -> Program {
    Program {
        setup: Some(body(|c, w| {
            let g = c.pin();
            let x = c.new_node(1);
            c.store(&w.roots[0], x, &g);
            let y = c.new_node(2);
            c.store(&w.roots[1], y, &g);
            c.unpin(g);
            c.rounds(1);
        })),
        threads: vec![
            body(|c, w| {
                let mut g = c.pin();
                {
                    let s = c.load(&w.roots[0], &g);
                    c.sderef(s);
                }
                c.reactivate(&mut g);
                let s = c.load(&w.roots[1], &g);
                c.sderef(s);
                c.sderef(s);
                c.unpin(g);
            }),
            body(|c, w| {
                let g = c.pin();
                c.store(&w.roots[0], Rc::null(), &g);
                c.store(&w.roots[1], Rc::null(), &g);
                c.unpin(g);
                c.rounds(5);
            }),
        ],
        ..base(p)
    }
}

fn link_into_unlinked(p: &Params) -> Program {
    // The example next to the commented-out `get_mut` in strong.rs.
    let pre = p.get("pre", 2) as usize;
    Program {
        setup: Some(body(move |c, w| {
            let g = c.pin();
            let n1 = c.new_node(1);
            c.store(&w.roots[0], n1, &g);
            c.unpin(g);
            c.rounds(pre);
        })),
        threads: vec![
            // T1: holds a snapshot of n1, installs n2 into n1.next, leaves
            body(|c, w| {
                let g = c.pin();
                let s = c.load(&w.roots[0], &g);
                if !s.s.is_null() {
                    let n2 = c.new_node(2);
                    c.store(&c.snode(s).next[0], n2, &g);
                }
                c.unpin(g);
            }),
            // T2: unlinks n1 and reclaims
            body(|c, w| {
                let g = c.pin();
                c.store(&w.roots[0], Rc::null(), &g);
                c.unpin(g);
                c.rounds(4);
            }),
            // T4: loads n2 through n1 and uses it
            body(|c, w| {
                let g = c.pin();
                let s = c.load(&w.roots[0], &g);
                if !s.s.is_null() {
                    let s2 = c.load(&c.snode(s).next[0], &g);
                    c.sderef(s2);
                    c.sderef(s2);
                }
                c.unpin(g);
            }),
        ],
        ..base(p)
    }
}

// ------------------------------------------------------------------------------------ C03

fn weak_holder(p: &Params) -> Program {
    Program {
        setup: Some(body(|c, w| {
            let x = c.new_node(1);
            let wk = c.downgrade(&x);
            w.rc[0].put(x);
            w.weak[0].put(wk);
        })),
        threads: vec![
            body(|c, w| {
                let wk = w.weak[0].take();
                if let Some(r) = c.upgrade(&wk) {
                    c.deref(&r);
                    c.drop_rc(r);
                }
                let w2 = c.wclone(&wk);
                c.wdrop(wk);
                if let Some(r) = c.upgrade(&w2) {
                    c.deref(&r);
                    c.drop_rc(r);
                }
                w.weak[1].put(w2);
            }),
            body(|c, w| {
                let r = w.rc[0].take();
                c.drop_rc(r);
                c.rounds(8);
            }),
        ],
        post: Some(body(|c, w| {
            c.rounds(10);
            let wk = w.weak[1].take();
            if let Some(r) = c.upgrade(&wk) {
                c.drop_rc(r);
            }
            let w2 = c.wclone(&wk);
            c.wdrop(wk);
            c.wdrop(w2);
        })),
        ..base(p)
    }
}

fn weak_through_zero(p: &Params) -> Program {
    // destructed: 0 = the object stays alive; 1 = it was destructed long ago; 2 = its last strong
    // owner is gone and the destruction attempt is `pre` rounds old (it fires in the concurrent
    // phase, possibly while the reader is inside its critical section)
    let destructed = p.get("destructed", 1);
    let pre = p.get("pre", 2) as usize;
    // dropin: the re-created Weak is dropped again inside the same critical section
    let dropin = p.get("dropin", 0) != 0;
    Program {
        setup: Some(body(move |c, w| {
            let x = c.new_node(1);
            let wk = c.downgrade(&x);
            let g = c.pin();
            c.wstore(&w.wroots[0], wk, &g);
            c.unpin(g);
            match destructed {
                0 => w.rc[0].put(x),
                1 => {
                    c.drop_rc(x);
                    c.rounds(8);
                }
                _ => {
                    c.drop_rc(x);
                    c.rounds(pre);
                }
            }
        })),
        threads: vec![
            body(move |c, w| {
                let g = c.pin();
                let ws = c.wload(&w.wroots[0], &g);
                if !ws.s.is_null() {
                    let w2 = c.ws_counted(ws);
                    if dropin {
                        c.wdrop(w2);
                        c.unpin(g);
                    } else {
                        c.unpin(g);
                        if let Some(r) = c.upgrade(&w2) {
                            c.drop_rc(r);
                        }
                        w.weak[1].put(w2);
                    }
                } else {
                    c.unpin(g);
                }
            }),
            body(|c, w| {
                let g = c.pin();
                c.wstore(&w.wroots[0], Weak::null(), &g);
                c.unpin(g);
                c.rounds(6);
            }),
        ],
        post: Some(body(|c, w| {
            c.rounds(8);
            if let Some(wk) = w.weak[1].try_take() {
                if let Some(r) = c.upgrade(&wk) {
                    c.drop_rc(r);
                }
                c.wdrop(wk);
            }
        })),
        ..base(p)
    }
}

fn last_weak_vs_destruct(p: &Params) -> Program {
    let pre = p.get("pre", 0) as usize;
    Program {
        setup: Some(body(move |c, w| {
            let x = c.new_node(1);
            let wk = c.downgrade(&x);
            w.weak[0].put(wk);
            if pre > 0 {
                c.drop_rc(x);
                c.rounds(pre);
            } else {
                w.rc[0].put(x);
            }
        })),
        threads: vec![
            body(|c, w| {
                let wk = w.weak[0].take();
                c.wdrop(wk);
                c.rounds(2);
            }),
            body(|c, w| {
                if let Some(r) = w.rc[0].try_take() {
                    c.drop_rc(r);
                }
                c.rounds(5);
            }),
        ],
        ..base(p)
    }
}

// ------------------------------------------------------------------------------------ C04

fn concurrent_release(p: &Params) -> Program {
    // shape 0: list a->b->c, handles: a, c        shape 1: diamond a->{b,c}->d, handles: a, d
    // shape 2: doubly linked a<->b (weak back), handles: a (Rc), b (Weak)
    let shape = p.get("shape", 0);
    let age = p.get("age", 4) as usize;
    Program {
        setup: Some(body(move |c, w| {
            let g = c.pin();
            match shape {
                0 => {
                    let n3 = c.new_node(3);
                    let n2 = c.new_node(2);
                    let n1 = c.new_node(1);
                    let h3 = c.clone_rc(&n3);
                    c.store(&c.node(&n2).next[0], n3, &g);
                    c.store(&c.node(&n1).next[0], n2, &g);
                    w.rc[0].put(n1);
                    w.rc[1].put(h3);
                }
                1 => {
                    let d = c.new_node(4);
                    let b = c.new_node(2);
                    let cc = c.new_node(3);
                    let a = c.new_node(1);
                    let hd = c.clone_rc(&d);
                    let d2 = c.clone_rc(&d);
                    c.store(&c.node(&b).next[0], d, &g);
                    c.store(&c.node(&cc).next[0], d2, &g);
                    c.store(&c.node(&a).next[0], b, &g);
                    c.store(&c.node(&a).next[1], cc, &g);
                    w.rc[0].put(a);
                    w.rc[1].put(hd);
                }
                _ => {
                    let b = c.new_node(2);
                    let a = c.new_node(1);
                    let wa = c.downgrade(&a);
                    c.wstore(&c.node(&b).back, wa, &g);
                    let wb = c.downgrade(&b);
                    c.store(&c.node(&a).next[0], b, &g);
                    w.rc[0].put(a);
                    w.weak[1].put(wb);
                }
            }
            c.unpin(g);
            c.rounds(age);
        })),
        threads: vec![
            body(|c, w| {
                let r = w.rc[0].take();
                c.drop_rc(r);
                c.rounds(4);
            }),
            body(|c, w| {
                if let Some(r) = w.rc[1].try_take() {
                    c.drop_rc(r);
                }
                if let Some(x) = w.weak[1].try_take() {
                    if let Some(r) = c.upgrade(&x) {
                        c.drop_rc(r);
                    }
                    c.wdrop(x);
                }
                c.rounds(4);
            }),
        ],
        ..base(p)
    }
}

/// The age test of every node of a cascade must use the epoch of the moment, not the one the
/// cascade started in. Scheduling points: the driver's own (`Deref`) only - the cascading thread
/// can be interrupted at node 395 and nowhere else, so the space is tiny although the cascade is
/// long.
fn long_cascade(p: &Params) -> Program {
    Program {
        classes: 1 << crate::sched::CLASS_DEREF,
        stack: 32 << 20,
        setup: Some(body(|c, w| {
            let g = c.pin();
            let mut next: Option<Rc<Node>> = None;
            for id in (1..=420u32).rev() {
                let nd = c.new_node_with(id, None, None, None, 0b1011);
                if let Some(r) = next.take() {
                    c.store(&c.node(&nd).next[0], r, &g);
                }
                if id == 400 {
                    c.store(&w.roots[1], c.clone_rc(&nd), &g);
                }
                next = Some(nd);
            }
            c.store(&w.roots[0], next.unwrap(), &g);
            c.unpin(g);
            c.rounds(4);
        })),
        threads: vec![
            body(|c, w| {
                let g = c.pin();
                c.store(&w.roots[0], Rc::null(), &g);
                c.unpin(g);
                c.rounds(4);
            }),
            body(|c, w| {
                let g = c.pin();
                let s = c.load(&w.roots[1], &g);
                if !s.s.is_null() {
                    c.sderef(s);
                    c.store(&w.roots[1], Rc::null(), &g);
                    c.sderef(s);
                    c.sderef(s);
                }
                c.unpin(g);
            }),
        ],
        drain_max: 60,
        ..base(p)
    }
}

/// A destructor that reads under its own guard (finding #13): thread 0 drops the last reference
/// to D and collects until D is destructed - on thread 0, inside its collection; D's destructor
/// pins, loads X from roots[0] and uses the Snapshot before and after each of three flushes (its
/// four uses are the only scheduling points of thread 0). Thread 1 removes X from roots[0], which
/// defers X's destruction; threads 2-4 each make one pass. X must stay intact until the
/// destructor's guard is gone, however the others are scheduled between its uses.
fn destructor_reader(p: &Params) -> Program {
    Program {
        classes: 1 << crate::sched::CLASS_DEREF,
        setup: Some(body(|c, w| {
            crate::world::DTOR_WORLD.store(w as *const World as usize, std::sync::atomic::Ordering::Relaxed);
            let g = c.pin();
            let x = c.new_node(1);
            c.store(&w.roots[0], x, &g);
            c.unpin(g);
            let d = c.new_node_with(50, None, None, None, 0b10000);
            w.rc[0].put(d);
            c.rounds(4);
        })),
        threads: vec![
            body(|c, w| {
                let d = w.rc[0].take();
                c.drop_rc(d);
                c.rounds(6);
            }),
            body(|c, w| {
                let g = c.pin();
                c.store(&w.roots[0], Rc::null(), &g);
                c.unpin(g);
                c.round();
            }),
            body(|c, _| c.round()),
            body(|c, _| c.round()),
            body(|c, _| c.round()),
        ],
        drain_max: 40,
        ..base(p)
    }
}

/// The very first downgrade sets the WEAKED flag with a compare-exchange that other changes of
/// the count word make fail: every loser must retry (and then take the fetch_add path).
fn first_downgrade(p: &Params) -> Program {
    let many = p.get("many", 0) != 0;
    Program {
        setup: Some(body(|c, w| {
            let x = c.new_node(1);
            w.rc[1].put(c.clone_rc(&x));
            w.rc[2].put(c.clone_rc(&x));
            w.rc[0].put(x);
        })),
        threads: vec![
            body(move |c, w| {
                let r = w.rc[0].take();
                if many {
                    let [a, b] = c.weak_many::<2>(&r);
                    c.wdrop(a);
                    w.weak[0].put(b);
                } else {
                    w.weak[0].put(c.downgrade(&r));
                }
                c.drop_rc(r);
                c.round();
                let wk = w.weak[0].take();
                if let Some(u) = c.upgrade(&wk) {
                    c.deref(&u);
                    c.drop_rc(u);
                }
                c.wdrop(wk);
            }),
            body(|c, w| {
                let r = w.rc[1].take();
                let wk = c.downgrade(&r);
                c.drop_rc(r);
                if let Some(u) = c.upgrade(&wk) {
                    c.deref(&u);
                    c.drop_rc(u);
                }
                c.wdrop(wk);
                c.round();
            }),
            body(|c, w| {
                let r = w.rc[2].take();
                let r2 = c.clone_rc(&r);
                c.drop_rc(r2);
                c.drop_rc(r);
                c.rounds(2);
            }),
        ],
        ..base(p)
    }
}

/// C06 with the one concurrent ingredient the statement allows: the externally held node stops
/// being "referenced from elsewhere" while the cascade is at work.
fn latency_vs_holder(p: &Params) -> Program {
    let n = p.get("n", 5) as usize;
    let k = p.get("k", 2) as usize;
    let age = p.get("age", 4) as usize;
    Program {
        setup: Some(body(move |c, w| {
            let g = c.pin();
            let mut next: Option<Rc<Node>> = None;
            for i in (0..n).rev() {
                let nd = c.new_node(i as u32 + 1);
                if let Some(r) = next.take() {
                    c.store(&c.node(&nd).next[0], r, &g);
                }
                if i == k {
                    w.rc[1].put(c.clone_rc(&nd));
                }
                next = Some(nd);
            }
            c.unpin(g);
            w.rc[0].put(next.unwrap());
            c.rounds(age);
        })),
        threads: vec![
            body(|c, w| {
                // enough rounds for the cascade to run on this thread
                let r = w.rc[0].take();
                c.drop_rc(r);
                c.rounds(4);
            }),
            body(|c, w| {
                let r = w.rc[1].take();
                c.drop_rc(r);
            }),
        ],
        post: Some(body(move |c, _w| {
            let bound = crate::scen::seq::latency_bound(n);
            let mut used = 0usize;
            while mon().destructs < n as u64 {
                if used > bound {
                    let done = mon().destructs;
                    mon().violate(
                        "C06",
                        "too-many-grace-periods",
                        format!("only {} of {} nodes destructed {} rounds after both releases (bound {})", done, n, used, bound),
                    );
                    break;
                }
                c.round();
                used += 1;
            }
            mon().mix_outcome(0x6100 ^ used as u64);
        })),
        ..base(p)
    }
}

// ------------------------------------------------------------------------------------ bulk

fn bulk_shares(p: &Params) -> Program {
    let kind = p.get("kind", 0);
    if kind == 0 {
        Program {
            setup: Some(body(|c, w| {
                let [a, b] = c.new_many::<2>(1);
                w.rc[0].put(a);
                w.rc[1].put(b);
            })),
            threads: vec![
                body(|c, w| {
                    let r = w.rc[0].take();
                    c.deref(&r);
                    c.drop_rc(r);
                    c.rounds(4);
                }),
                body(|c, w| {
                    let r = w.rc[1].take();
                    let r2 = c.clone_rc(&r);
                    c.drop_rc(r);
                    c.rounds(1);
                    c.deref(&r2);
                    c.drop_rc(r2);
                    c.rounds(4);
                }),
            ],
            ..base(p)
        }
    } else {
        Program {
            // count 3: one share goes to the other thread, one is yielded and dropped, one is
            // never yielded and released by abort
            threads: vec![
                body(|c, w| {
                    let mut it = c.new_iter(1, 3);
                    let obj = 16;
                    let first = c.iter_next(&mut it).unwrap();
                    w.rc[0].put(first);
                    c.round();
                    let second = c.iter_next(&mut it).unwrap();
                    c.deref(&second);
                    c.drop_rc(second);
                    let g = c.pin();
                    c.iter_abort(it, obj, 1, &g);
                    c.unpin(g);
                    c.rounds(3);
                }),
                body(|c, w| {
                    c.round();
                    if let Some(r) = w.rc[0].try_take() {
                        c.deref(&r);
                        c.drop_rc(r);
                    }
                    c.rounds(4);
                }),
            ],
            ..base(p)
        }
    }
}

fn weak_many_shares(p: &Params) -> Program {
    Program {
        setup: Some(body(|c, w| {
            let x = c.new_node(1);
            let [a, b] = c.weak_many::<2>(&x);
            w.rc[0].put(x);
            w.weak[0].put(a);
            w.weak[1].put(b);
        })),
        threads: vec![
            body(|c, w| {
                let wk = w.weak[0].take();
                if let Some(r) = c.upgrade(&wk) {
                    c.drop_rc(r);
                }
                c.wdrop(wk);
                c.rounds(3);
            }),
            body(|c, w| {
                let r = w.rc[0].take();
                c.drop_rc(r);
                let wk = w.weak[1].take();
                c.wdrop(wk);
                c.rounds(5);
            }),
        ],
        ..base(p)
    }
}

// ------------------------------------------------------------------------------------ C14

fn long_disposal(p: &Params) -> Program {
    let n = p.get("n", 130) as usize;
    Program {
        setup: Some(body(move |c, w| {
            let g = c.pin();
            let mut head = c.new_node(0);
            for i in 1..n {
                let nd = c.new_node(i as u32);
                c.store(&c.node(&nd).next[0], head, &g);
                head = nd;
            }
            c.store(&w.roots[0], head, &g);
            let y = c.new_node(9999);
            c.store(&w.roots[1], y, &g);
            c.unpin(g);
            c.rounds(4);
            let g = c.pin();
            c.store(&w.roots[0], Rc::null(), &g);
            c.unpin(g);
            c.rounds(2);
        })),
        threads: vec![
            rounds_thread(3),
            body(|c, w| {
                let g = c.pin();
                let s = c.load(&w.roots[1], &g);
                c.sderef(s);
                c.sderef(s);
                c.unpin(g);
            }),
        ],
        classes: p.get("classes", crate::sched::EBR as i64) as u8,
        ..base(p)
    }
}
