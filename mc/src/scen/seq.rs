//! Engine E on real objects: sequential programs enumerated completely by a `case` index.
//! Each case runs as one execution (fresh collector, fresh thread, all monitors on).

use std::sync::OnceLock;

use circ::verif as cv;
use circ::{Rc, Weak};

use crate::exec::{Body, Params, Program};
use crate::monitor::mon;
use crate::scen::ScenarioDef;
use crate::world::{Ctx, Node, World, TG, TS, TWS};

macro_rules! scen {
    ($name:expr, $f:ident, $about:expr) => {
        ScenarioDef {
            name: $name,
            about: $about,
            build: $f,
        }
    };
}

pub static SCENARIOS: &[ScenarioDef] = &[
    scen!("seq/bulk", bulk, "C10: every bulk-constructor configuration and release order"),
    scen!("seq/graphs", graphs, "C04: graph shapes x handle release orders x round placements"),
    scen!("seq/upgrade-histories", upgrade_histories, "C05: every short history of drops, rounds and upgrades"),
    scen!("seq/cell", cell, "C08: every short operation sequence on one AtomicRc against a (pointer, tag) cell"),
    scen!("seq/wcell", wcell, "C09: every short operation sequence on one AtomicWeak against a (pointer, tag) cell"),
    scen!("seq/latency", latency, "C06: epochs needed to reclaim a structure of n nodes"),
    scen!("seq/cascade-decision", cascade_decision, "C12: the immediate-reclamation decision against true stamp ages"),
    scen!("seq/latency-busy", latency_busy, "C06: a comb whose held side leaves are re-stamped in every round; the spine must go in constant epochs"),
    scen!("seq/conv", conv, "every owner-creating conversion (From impls, AtomicRc::new/take, AtomicWeak::get_mut) x release order x round placement"),
];

fn base(p: &Params) -> Program {
    Program {
        e0: p.get("e0", 0) as usize,
        classes: 0,
        ..Default::default()
    }
}

fn body(f: impl FnOnce(&Ctx, &'static World) + Send + 'static) -> Body {
    Box::new(move |w| {
        let c = Ctx::new();
        f(&c, w)
    })
}

fn nth_perm(n: usize, mut idx: usize) -> Vec<usize> {
    let mut items: Vec<usize> = (0..n).collect();
    let mut out = vec![];
    let mut f: Vec<usize> = vec![1; n + 1];
    for i in 1..=n {
        f[i] = f[i - 1] * i;
    }
    for i in (0..n).rev() {
        let k = idx / f[i];
        idx %= f[i];
        out.push(items.remove(k));
    }
    out
}

fn fact(n: usize) -> usize {
    (1..=n).product::<usize>().max(1)
}

// ---------------------------------------------------------------------------------- C10

#[derive(Clone, Debug)]
pub enum BulkSpec {
    Many { n: usize, rounds: bool },
    Iter { count: usize, k: usize, abort: bool, end_pos: usize, rounds: bool },
    /// pre: 0 fresh receiver; 1 an earlier downgrade, already dropped; 2 an earlier downgrade still alive
    WeakMany { n: usize, recv_pos: usize, rounds: bool, pre: usize },
}

pub fn bulk_specs() -> &'static Vec<BulkSpec> {
    static S: OnceLock<Vec<BulkSpec>> = OnceLock::new();
    S.get_or_init(|| {
        let mut v = vec![];
        for rounds in [false, true] {
            for n in 0..=5 {
                v.push(BulkSpec::Many { n, rounds });
            }
            for count in 0..=5 {
                for k in 0..=count {
                    for abort in [false, true] {
                        for end_pos in 0..=k {
                            v.push(BulkSpec::Iter { count, k, abort, end_pos, rounds });
                        }
                    }
                }
            }
            for pre in 0..3 {
                for n in 0..=4 {
                    for recv_pos in 0..=n {
                        v.push(BulkSpec::WeakMany { n, recv_pos, rounds, pre });
                    }
                }
            }
        }
        // larger numbers of shares (a count that is added in one step goes through integer
        // conversions and shifts: 8, 9, 16, 33, 300 cross the small powers of two), appended
        // so that the indices of the cases above stay what they were
        for n in [8usize, 16, 33] {
            v.push(BulkSpec::Many { n, rounds: true });
        }
        for count in [8usize, 33, 300] {
            for k in [0, 1, count / 2, count] {
                for abort in [false, true] {
                    for end_pos in [0, k] {
                        v.push(BulkSpec::Iter { count, k, abort, end_pos, rounds: true });
                    }
                }
            }
        }
        for pre in [0usize, 2] {
            for n in [8usize, 9, 16, 33] {
                for recv_pos in [0, n / 2, n] {
                    v.push(BulkSpec::WeakMany { n, recv_pos, rounds: true, pre });
                }
            }
        }
        v
    })
}

fn release_rcs(c: &Ctx, v: Vec<Rc<Node>>, rounds: bool) {
    let n = v.len();
    for (i, r) in v.into_iter().enumerate() {
        c.deref(&r);
        if i + 1 == n {
            // the last owner: the object must still be alive after any number of rounds
            c.rounds(6);
            c.deref(&r);
        }
        c.drop_rc(r);
        if rounds {
            c.round();
        }
    }
}

fn bulk(p: &Params) -> Program {
    let spec = bulk_specs()[p.get("case", 0) as usize].clone();
    Program {
        setup: Some(body(move |c, _w| match spec {
            BulkSpec::Many { n, rounds } => {
                let v: Vec<Rc<Node>> = match n {
                    0 => c.new_many::<0>(1).into_iter().collect(),
                    1 => c.new_many::<1>(1).into_iter().collect(),
                    2 => c.new_many::<2>(1).into_iter().collect(),
                    3 => c.new_many::<3>(1).into_iter().collect(),
                    4 => c.new_many::<4>(1).into_iter().collect(),
                    5 => c.new_many::<5>(1).into_iter().collect(),
                    8 => c.new_many::<8>(1).into_iter().collect(),
                    16 => c.new_many::<16>(1).into_iter().collect(),
                    _ => c.new_many::<33>(1).into_iter().collect(),
                };
                if v.len() != n {
                    mon().violate("C10", "wrong-share-count", format!("new_many::<{}> returned {} pointers", n, v.len()));
                }
                release_rcs(c, v, rounds);
            }
            BulkSpec::Iter { count, k, abort, end_pos, rounds } => {
                let mut it = c.new_iter(1, count);
                let obj = 16;
                let mut yielded = vec![];
                for _ in 0..k {
                    match c.iter_next(&mut it) {
                        Some(r) => yielded.push(r),
                        None => mon().violate("C10", "iterator-short", format!("new_many_iter({}) ended after fewer than {} items", count, k)),
                    }
                }
                let mut it = Some(it);
                let remain = count - k;
                let total = yielded.len();
                for (i, r) in yielded.into_iter().enumerate() {
                    if i == end_pos {
                        end_iter(c, it.take().unwrap(), obj, remain, abort);
                        if rounds {
                            c.rounds(5);
                        }
                    }
                    c.deref(&r);
                    if i + 1 == total && end_pos <= i {
                        c.rounds(6);
                        c.deref(&r);
                    }
                    c.drop_rc(r);
                    if rounds {
                        c.round();
                    }
                }
                if let Some(it) = it.take() {
                    if k == count {
                        // exhausted: one more next() must yield nothing
                        let mut it = it;
                        if c.iter_next(&mut it).is_some() {
                            mon().violate("C10", "iterator-long", format!("new_many_iter({}) yielded more than {} items", count, count));
                        }
                        end_iter(c, it, obj, remain, abort);
                    } else {
                        if rounds {
                            c.rounds(6);
                        }
                        end_iter(c, it, obj, remain, abort);
                    }
                }
            }
            BulkSpec::WeakMany { n, recv_pos, rounds, pre } => {
                let x = c.new_node(1);
                let earlier = match pre {
                    0 => None,
                    1 => {
                        let w0 = c.downgrade(&x);
                        c.wdrop(w0);
                        c.rounds(if rounds { 5 } else { 0 });
                        None
                    }
                    _ => Some(c.downgrade(&x)),
                };
                let weaks: Vec<Weak<Node>> = match n {
                    0 => c.weak_many::<0>(&x).into_iter().collect(),
                    1 => c.weak_many::<1>(&x).into_iter().collect(),
                    2 => c.weak_many::<2>(&x).into_iter().collect(),
                    3 => c.weak_many::<3>(&x).into_iter().collect(),
                    4 => c.weak_many::<4>(&x).into_iter().collect(),
                    8 => c.weak_many::<8>(&x).into_iter().collect(),
                    9 => c.weak_many::<9>(&x).into_iter().collect(),
                    16 => c.weak_many::<16>(&x).into_iter().collect(),
                    _ => c.weak_many::<33>(&x).into_iter().collect(),
                };
                for w in weaks.iter() {
                    if w.is_null() {
                        mon().violate("C10", "weak-many-null", format!("Rc::weak_many::<{}> returned a null Weak", n));
                    }
                    match c.upgrade(w) {
                        Some(r) => {
                            if !r.ptr_eq(&x) {
                                mon().violate("C10", "weak-many-other", "a Weak from weak_many does not refer to the receiver".into());
                            }
                            c.drop_rc(r);
                        }
                        None => mon().violate("C10", "weak-many-dead", "a Weak from weak_many does not upgrade while the receiver is alive".into()),
                    }
                }
                let mut x = Some(x);
                let total = weaks.len();
                for (i, w) in weaks.into_iter().enumerate() {
                    if i == recv_pos {
                        c.drop_rc(x.take().unwrap());
                        c.rounds(if rounds { 6 } else { 0 });
                    }
                    if i + 1 == total {
                        // the last weak share keeps the block: touching its counters must be fine
                        c.rounds(6);
                        let w2 = c.wclone(&w);
                        c.wdrop(w2);
                    }
                    c.wdrop(w);
                    if rounds {
                        c.round();
                    }
                }
                if let Some(x) = x.take() {
                    c.rounds(if rounds { 6 } else { 0 });
                    c.deref(&x);
                    c.drop_rc(x);
                }
                if let Some(w0) = earlier {
                    c.rounds(6);
                    let w2 = c.wclone(&w0);
                    c.wdrop(w2);
                    c.wdrop(w0);
                }
            }
        })),
        claim: Some("C10"),
        ..base(p)
    }
}

fn end_iter(c: &Ctx, it: circ::NewRcIter<Node>, obj: i64, remain: usize, abort: bool) {
    if abort {
        let g = c.pin();
        c.iter_abort(it, obj, remain, &g);
        c.unpin(g);
    } else {
        c.iter_drop(it, obj, remain);
    }
}

// ---------------------------------------------------------------------------------- C04

#[derive(Clone, Copy)]
enum H {
    R(usize),
    W(usize),
}

/// (number of nodes, strong edges (from, slot, to), weak back edges (from, to), handles)
fn shape(i: i64) -> (usize, Vec<(usize, usize, usize)>, Vec<(usize, usize)>, Vec<H>) {
    match i {
        // list a->b->c
        0 => (3, vec![(0, 0, 1), (1, 0, 2)], vec![], vec![H::R(0), H::R(1), H::W(2), H::W(0)]),
        // tree a->(b,c)
        1 => (3, vec![(0, 0, 1), (0, 1, 2)], vec![], vec![H::R(0), H::R(2), H::W(1)]),
        // diamond a->(b,c)->d
        2 => (4, vec![(0, 0, 1), (0, 1, 2), (1, 0, 3), (2, 0, 3)], vec![], vec![H::R(0), H::R(3), H::W(3), H::R(1)]),
        // doubly linked a<->b<->c, weak back pointers
        3 => (3, vec![(0, 0, 1), (1, 0, 2)], vec![(1, 0), (2, 1)], vec![H::R(0), H::W(2), H::R(2)]),
        // two roots sharing a tail: r1->t, r2->t, t->u
        4 => (4, vec![(0, 0, 2), (1, 0, 2), (2, 0, 3)], vec![], vec![H::R(0), H::R(1), H::W(3)]),
        // x shared by p and q (links) plus a handle; x created with three shares
        _ => (3, vec![(0, 0, 2), (1, 0, 2)], vec![], vec![H::R(0), H::R(1), H::R(2)]),
    }
}

pub const SHAPES: i64 = 6;

pub fn graph_cases(shape_i: i64) -> i64 {
    let h = shape(shape_i).3.len();
    (fact(h) * 3usize.pow(h as u32)) as i64
}

fn graphs(p: &Params) -> Program {
    let shape_i = p.get("shape", 0);
    let case = p.get("case", 0) as usize;
    let age = p.get("age", 4) as usize;
    // which `next` edges pop_edges hands to the cascade; the rest is released by AtomicRc::drop
    let pop = p.get("pop", 3) as u8;
    // handles are released with Rc::finalize inside a critical section instead of dropped
    let fin = p.get("fin", 0) != 0;
    let (n, edges, backs, handles) = shape(shape_i);
    let h = handles.len();
    let perm = nth_perm(h, case % fact(h));
    let mut pl = case / fact(h);
    let mut place = vec![];
    for _ in 0..h {
        place.push([0usize, 1, 4][pl % 3]);
        pl /= 3;
    }
    Program {
        setup: Some(body(move |c, _w| {
            let g = c.pin();
            let nodes: Vec<Rc<Node>> = if shape_i == 5 {
                let [x] = c.new_many::<1>(3);
                vec![c.new_node_with(1, None, None, None, pop), c.new_node_with(2, None, None, None, pop), x]
            } else {
                (0..n).map(|i| c.new_node_with(i as u32 + 1, None, None, None, pop)).collect()
            };
            for &(from, slot, to) in edges.iter() {
                let r = c.clone_rc(&nodes[to]);
                c.store(&c.node(&nodes[from]).next[slot], r, &g);
            }
            for &(from, to) in backs.iter() {
                let wk = c.downgrade(&nodes[to]);
                c.wstore(&c.node(&nodes[from]).back, wk, &g);
            }
            let mut hs: Vec<Option<(Option<Rc<Node>>, Option<Weak<Node>>)>> = handles
                .iter()
                .map(|hd| {
                    Some(match *hd {
                        H::R(i) => (Some(c.clone_rc(&nodes[i])), None),
                        H::W(i) => (None, Some(c.downgrade(&nodes[i]))),
                    })
                })
                .collect();
            c.unpin(g);
            for r in nodes {
                c.drop_rc(r);
            }
            c.rounds(age);
            for (&hi, &rounds) in perm.iter().zip(place.iter()) {
                let (r, wk) = hs[hi].take().unwrap();
                if let Some(r) = r {
                    c.deref(&r);
                    if fin {
                        let g = c.pin();
                        c.finalize(r, &g);
                        c.unpin(g);
                    } else {
                        c.drop_rc(r);
                    }
                }
                if let Some(wk) = wk {
                    if let Some(r) = c.upgrade(&wk) {
                        c.deref(&r);
                        c.drop_rc(r);
                    }
                    c.wdrop(wk);
                }
                c.rounds(rounds);
            }
        })),
        ..base(p)
    }
}

// ---------------------------------------------------------------------------------- C05

pub const UPG_ALPHABET: usize = 7;

pub fn upgrade_cases(depth: usize) -> i64 {
    // variants root / child over sequences of length 0..=depth, plus the null variant
    let mut per = 0i64;
    let mut pow = 1i64;
    for _ in 0..=depth {
        per += pow;
        pow *= UPG_ALPHABET as i64;
    }
    2 * per + 7
}

fn upgrade_histories(p: &Params) -> Program {
    let depth = p.get("depth", 4) as usize;
    let mut per = 0i64;
    let mut pow = 1i64;
    for _ in 0..=depth {
        per += pow;
        pow *= UPG_ALPHABET as i64;
    }
    let case = p.get("case", 0);
    let variant = (case / per).min(2);
    let mut idx = if variant == 2 { case - 2 * per } else { case % per };
    // decode a sequence: lengths in increasing order
    let mut seq = vec![];
    if variant < 2 {
        let mut len = 0;
        let mut block = 1i64;
        while idx >= block {
            idx -= block;
            block *= UPG_ALPHABET as i64;
            len += 1;
        }
        for _ in 0..len {
            seq.push((idx % UPG_ALPHABET as i64) as u8);
            idx /= UPG_ALPHABET as i64;
        }
    }
    Program {
        setup: Some(body(move |c, w| {
            if variant == 2 {
                // null weak pointers: idx selects one of 7 little programs
                let wk: Weak<Node> = Weak::null();
                let g = c.pin();
                match idx {
                    0 => {
                        let r = c.upgrade(&wk);
                        if let Some(r) = r {
                            c.drop_rc(r);
                        }
                    }
                    1 => {
                        let ws = c.wsnapshot(&wk, &g);
                        let _ = c.ws_upgrade(ws);
                    }
                    2 => {
                        let ws = c.wload(&w.wroots[0], &g);
                        let _ = c.ws_upgrade(ws);
                    }
                    3 => {
                        let t = Weak::<Node>::null().with_tag(3);
                        if let Some(r) = c.upgrade(&t) {
                            if !r.is_null() || r.tag() != 3 {
                                mon().violate("C05", "null-upgrade", "tagged null Weak upgraded to something else".into());
                            }
                        }
                    }
                    4 => {
                        let ws = TWS { s: circ::WeakSnapshot::null().with_tag(5), gid: g.gid };
                        if let Some(s) = c.ws_upgrade(ws) {
                            if !s.s.is_null() || s.s.tag() != 5 {
                                mon().violate("C05", "null-upgrade", "tagged null WeakSnapshot upgraded to something else".into());
                            }
                        }
                    }
                    5 => {
                        let w2 = c.wclone(&wk);
                        let _ = c.upgrade(&w2);
                        c.wdrop(w2);
                    }
                    _ => {
                        let ws = c.wsnapshot(&wk, &g);
                        let w2 = c.ws_counted(ws);
                        let _ = c.upgrade(&w2);
                        c.wdrop(w2);
                    }
                }
                c.unpin(g);
                return;
            }
            let mut held: std::collections::VecDeque<Rc<Node>> = Default::default();
            let wk;
            if variant == 0 {
                let x = c.new_node(1);
                wk = c.downgrade(&x);
                held.push_back(x);
            } else {
                let g = c.pin();
                let child = c.new_node(2);
                let parent = c.new_node(1);
                wk = c.downgrade(&child);
                c.store(&c.node(&parent).next[0], child, &g);
                c.unpin(g);
                held.push_back(parent);
                c.rounds(4);
            }
            let g = c.pin();
            let w2 = c.wclone(&wk);
            c.wstore(&w.wroots[0], w2, &g);
            c.unpin(g);
            for s in seq {
                match s {
                    0 => {
                        if let Some(r) = held.pop_front() {
                            c.drop_rc(r);
                        }
                    }
                    1 => {
                        if let Some(r) = held.pop_back() {
                            c.drop_rc(r);
                        }
                    }
                    2 => c.round(),
                    3 => {
                        if let Some(r) = c.upgrade(&wk) {
                            c.deref(&r);
                            held.push_back(r);
                        }
                    }
                    4 => {
                        if let Some(r) = c.upgrade(&wk) {
                            c.deref(&r);
                            c.drop_rc(r);
                        }
                    }
                    5 => {
                        let g = c.pin();
                        let ws = c.wload(&w.wroots[0], &g);
                        if let Some(s) = c.ws_upgrade(ws) {
                            c.sderef(s);
                        }
                        c.unpin(g);
                    }
                    _ => {
                        let g = c.pin();
                        let ws = c.wload(&w.wroots[0], &g);
                        if let Some(s) = c.ws_upgrade(ws) {
                            let r = c.counted(s);
                            c.sderef(s);
                            held.push_back(r);
                        }
                        c.unpin(g);
                    }
                }
            }
            // whatever is still held must be alive after a long drain
            c.rounds(8);
            for r in held.iter() {
                c.deref(r);
            }
            for r in held {
                c.drop_rc(r);
            }
            c.rounds(8);
            if let Some(r) = c.upgrade(&wk) {
                c.deref(&r);
                c.drop_rc(r);
            }
            c.wdrop(wk);
        })),
        ..base(p)
    }
}

// ---------------------------------------------------------------------------------- C08

#[derive(Clone, Copy, Debug, PartialEq, Eq)]
pub enum V {
    Null,
    X,
    Y,
    X1,
}

#[derive(Clone, Copy, Debug, PartialEq, Eq)]
pub enum Ex {
    Last,
    Held,
    Null,
    X1,
}

#[derive(Clone, Copy, Debug, PartialEq, Eq)]
pub enum CellOp {
    Load,
    Store(V),
    Swap(V),
    Cas(Ex, V),
    CasWeak(Ex, V),
    CasTag(Ex, usize),
    Adv,
}

pub fn cell_alphabet() -> &'static Vec<CellOp> {
    static S: OnceLock<Vec<CellOp>> = OnceLock::new();
    S.get_or_init(|| {
        let mut v = vec![CellOp::Load];
        for x in [V::Null, V::X, V::Y, V::X1] {
            v.push(CellOp::Store(x));
        }
        for x in [V::Null, V::Y] {
            v.push(CellOp::Swap(x));
        }
        for e in [Ex::Last, Ex::Held, Ex::Null, Ex::X1] {
            for x in [V::Null, V::Y, V::X1] {
                v.push(CellOp::Cas(e, x));
            }
        }
        v.push(CellOp::CasWeak(Ex::Last, V::Y));
        for e in [Ex::Last, Ex::Held, Ex::X1] {
            for t in [1usize, 9] {
                v.push(CellOp::CasTag(e, t));
            }
        }
        // a tag CAS to the tag the expected value already carries is still a comparison
        v.push(CellOp::CasTag(Ex::Held, 0));
        v.push(CellOp::CasTag(Ex::Last, 0));
        v.push(CellOp::Adv);
        // the weak variant with an expected value that differs from the content in its stamp
        // only, and with a tagged one
        v.push(CellOp::CasWeak(Ex::Held, V::Y));
        v.push(CellOp::CasWeak(Ex::X1, V::Null));
        v
    })
}

pub fn seq_cases(alphabet: usize, depth: usize) -> i64 {
    let mut per = 0i64;
    let mut pow = 1i64;
    for _ in 0..=depth {
        per += pow;
        pow *= alphabet as i64;
    }
    per
}

fn decode_seq(mut idx: i64, alphabet: usize) -> Vec<usize> {
    let mut len = 0;
    let mut block = 1i64;
    while idx >= block {
        idx -= block;
        block *= alphabet as i64;
        len += 1;
    }
    let mut seq = vec![];
    for _ in 0..len {
        seq.push((idx % alphabet as i64) as usize);
        idx /= alphabet as i64;
    }
    seq
}

/// model value: (object: 0 null / 1 x / 2 y, tag)
type MV = (u8, usize);

fn mv_of(v: V) -> MV {
    match v {
        V::Null => (0, 0),
        V::X => (1, 0),
        V::Y => (2, 0),
        V::X1 => (1, 1),
    }
}

fn cell(p: &Params) -> Program {
    let ops: Vec<CellOp> = decode_seq(p.get("case", 0), cell_alphabet().len())
        .into_iter()
        .map(|i| cell_alphabet()[i])
        .collect();
    // epochs that pass between the preparation of the expected values and the sequence itself:
    // the stamps of what is stored and of what is expected then differ by that much more
    let gap = p.get("gap", 0);
    Program {
        setup: Some(body(move |c, w| {
            let hx = c.new_node(1);
            let hy = c.new_node(2);
            let (ax, ay) = {
                let m = mon();
                (
                    crate::world::abs(m, cv::rc_word(&hx)) / 16,
                    crate::world::abs(m, cv::rc_word(&hy)) / 16,
                )
            };
            let to_mv = |a: i64| -> MV {
                let o = a / 16;
                let t = (a % 16) as usize;
                if o == 0 {
                    (0, t)
                } else if o == ax {
                    (1, t)
                } else if o == ay {
                    (2, t)
                } else {
                    (9, t)
                }
            };
            let mk = |c: &Ctx, v: V| -> Rc<Node> {
                match v {
                    V::Null => Rc::null(),
                    V::X => c.clone_rc(&hx),
                    V::Y => c.clone_rc(&hy),
                    V::X1 => c.clone_rc(&hx).with_tag(1),
                }
            };
            let cellr = &w.roots[0];
            for _ in 0..gap {
                cv::try_advance();
            }
            let g: TG = c.pin();
            let mut model: MV = (0, 0);
            let mut last: Option<TS> = None;
            let mut last_mv: MV = (0, 0);
            let bad = |what: String| {
                mon().violate("C08", "cell-semantics", what);
            };
            let abs_s = |s: &TS| crate::world::abs(mon(), cv::snapshot_word(&s.s));
            let abs_r = |r: &Rc<Node>| crate::world::abs(mon(), cv::rc_word(r));
            for (step, op) in ops.iter().enumerate() {
                let expd = |e: Ex| -> (TS, MV) {
                    match e {
                        Ex::Last => match last {
                            Some(s) => (s, last_mv),
                            None => (TS { s: circ::Snapshot::null(), gid: g.gid }, (0, 0)),
                        },
                        Ex::Held => (TS { s: hx.snapshot(&g.g), gid: g.gid }, (1, 0)),
                        Ex::Null => (TS { s: circ::Snapshot::null(), gid: g.gid }, (0, 0)),
                        Ex::X1 => (TS { s: hx.snapshot(&g.g).with_tag(1), gid: g.gid }, (1, 1)),
                    }
                };
                match *op {
                    CellOp::Load => {
                        let s = c.load(cellr, &g);
                        let got = to_mv(abs_s(&s));
                        if got != model {
                            bad(format!("step {}: load returned {:?}, cell holds {:?}", step, got, model));
                        }
                        last = Some(s);
                        last_mv = got;
                    }
                    CellOp::Store(v) => {
                        c.store(cellr, mk(c, v), &g);
                        model = mv_of(v);
                    }
                    CellOp::Swap(v) => {
                        let old = c.swap(cellr, mk(c, v));
                        let got = to_mv(abs_r(&old));
                        if got != model {
                            bad(format!("step {}: swap returned {:?}, cell held {:?}", step, got, model));
                        }
                        c.drop_rc(old);
                        model = mv_of(v);
                    }
                    CellOp::Cas(e, v) | CellOp::CasWeak(e, v) => {
                        let weak = matches!(op, CellOp::CasWeak(..));
                        let (exp, emv) = expd(e);
                        let des = mk(c, v);
                        let dmv = mv_of(v);
                        match c.cas(cellr, exp, des, &g, weak) {
                            Ok(old) => {
                                let got = to_mv(abs_r(&old));
                                if emv != model {
                                    bad(format!("step {}: compare_exchange succeeded with expected {:?} while the cell held {:?}", step, emv, model));
                                }
                                if got != model {
                                    bad(format!("step {}: compare_exchange returned {:?} as previous, cell held {:?}", step, got, model));
                                }
                                c.drop_rc(old);
                                model = dmv;
                            }
                            Err((des, cur)) => {
                                let gotc = to_mv(abs_s(&cur));
                                let gotd = to_mv(abs_r(&des));
                                if emv == model && !weak {
                                    bad(format!("step {}: compare_exchange failed although the cell held the expected {:?} (epoch bits must not matter)", step, emv));
                                }
                                if gotc != model {
                                    bad(format!("step {}: failed compare_exchange reported current {:?}, cell holds {:?}", step, gotc, model));
                                }
                                if gotd != dmv {
                                    bad(format!("step {}: failed compare_exchange returned desired {:?} instead of {:?}", step, gotd, dmv));
                                }
                                last = Some(cur);
                                last_mv = gotc;
                                c.drop_rc(des);
                            }
                        }
                    }
                    CellOp::CasTag(e, t) => {
                        let (exp, emv) = expd(e);
                        match c.cas_tag(cellr, exp, t, &g) {
                            Ok(prev) => {
                                let got = to_mv(abs_s(&prev));
                                if emv != model {
                                    bad(format!("step {}: compare_exchange_tag succeeded with expected {:?} while the cell held {:?}", step, emv, model));
                                }
                                if got != model {
                                    bad(format!("step {}: compare_exchange_tag returned {:?} as previous, cell held {:?}", step, got, model));
                                }
                                model = (model.0, t % 8);
                            }
                            Err((des, cur)) => {
                                let gotc = to_mv(abs_s(&cur));
                                let gotd = to_mv(abs_s(&des));
                                if emv == model {
                                    bad(format!("step {}: compare_exchange_tag failed although the cell held the expected {:?}", step, emv));
                                }
                                if gotc != model {
                                    bad(format!("step {}: failed compare_exchange_tag reported current {:?}, cell holds {:?}", step, gotc, model));
                                }
                                if gotd != (emv.0, t % 8) {
                                    bad(format!("step {}: failed compare_exchange_tag returned desired {:?}", step, gotd));
                                }
                                last = Some(cur);
                                last_mv = gotc;
                            }
                        }
                    }
                    CellOp::Adv => {
                        cv::try_advance();
                    }
                }
            }
            // final content must agree with the model
            let s = c.load(cellr, &g);
            let got = to_mv(abs_s(&s));
            if got != model {
                bad(format!("final load returned {:?}, model says {:?}", got, model));
            }
            c.unpin(g);
            c.rounds(5);
            c.deref(&hx);
            c.deref(&hy);
            c.drop_rc(hx);
            c.drop_rc(hy);
        })),
        claim: Some("C08"),
        ..base(p)
    }
}

// ---------------------------------------------------------------------------------- C09

#[derive(Clone, Copy, Debug, PartialEq, Eq)]
pub enum WEx {
    /// last WeakSnapshot obtained from the cell itself
    Last,
    /// downgraded from a Snapshot loaded from an AtomicRc written at another epoch
    ViaSnapshot,
    /// taken from a Weak created by downgrading an Rc that came out of a swap
    ViaWeak,
    Null,
}

#[derive(Clone, Copy, Debug, PartialEq, Eq)]
pub enum WCellOp {
    Load,
    Store(V),
    Swap(V),
    Cas(WEx, V),
    CasWeak(WEx, V),
    CasTag(WEx, usize),
    Adv,
}

pub fn wcell_alphabet() -> &'static Vec<WCellOp> {
    static S: OnceLock<Vec<WCellOp>> = OnceLock::new();
    S.get_or_init(|| {
        let mut v = vec![WCellOp::Load];
        for x in [V::Null, V::X, V::Y, V::X1] {
            v.push(WCellOp::Store(x));
        }
        for x in [V::Null, V::Y] {
            v.push(WCellOp::Swap(x));
        }
        for e in [WEx::Last, WEx::ViaSnapshot, WEx::ViaWeak, WEx::Null] {
            for x in [V::Null, V::Y, V::X1] {
                v.push(WCellOp::Cas(e, x));
            }
        }
        v.push(WCellOp::CasWeak(WEx::ViaSnapshot, V::Y));
        for e in [WEx::Last, WEx::ViaSnapshot, WEx::ViaWeak] {
            for t in [1usize, 9] {
                v.push(WCellOp::CasTag(e, t));
            }
        }
        v.push(WCellOp::CasTag(WEx::ViaWeak, 0));
        v.push(WCellOp::CasTag(WEx::Last, 0));
        v.push(WCellOp::Adv);
        v
    })
}

fn wcell(p: &Params) -> Program {
    let ops: Vec<WCellOp> = decode_seq(p.get("case", 0), wcell_alphabet().len())
        .into_iter()
        .map(|i| wcell_alphabet()[i])
        .collect();
    let gap = p.get("gap", 0);
    Program {
        setup: Some(body(move |c, w| {
            let hx = c.new_node(1);
            let hy = c.new_node(2);
            let wx = c.downgrade(&hx);
            let wy = c.downgrade(&hy);
            // an AtomicRc holding x, written at this epoch; the epoch then moves on
            let g0 = c.pin();
            let cx = c.clone_rc(&hx);
            c.store(&w.roots[1], cx, &g0);
            c.unpin(g0);
            c.rounds(2);
            // an Rc to x that came out of a swap (it carries the link's stamp), downgraded
            let cx = c.clone_rc(&hx);
            let out = c.swap(&w.roots[2], cx);
            c.drop_rc(out);
            c.round();
            let swapped = c.swap(&w.roots[2], Rc::null());
            let wswapped = c.downgrade(&swapped);
            c.drop_rc(swapped);
            c.round();
            let (ax, ay) = {
                let m = mon();
                (
                    crate::world::abs(m, cv::rc_word(&hx)) / 16,
                    crate::world::abs(m, cv::rc_word(&hy)) / 16,
                )
            };
            let to_mv = |a: i64| -> MV {
                let o = a / 16;
                let t = (a % 16) as usize;
                if o == 0 {
                    (0, t)
                } else if o == ax {
                    (1, t)
                } else if o == ay {
                    (2, t)
                } else {
                    (9, t)
                }
            };
            let mk = |c: &Ctx, v: V| -> Weak<Node> {
                match v {
                    V::Null => Weak::null(),
                    V::X => c.wclone(&wx),
                    V::Y => c.wclone(&wy),
                    V::X1 => c.wclone(&wx).with_tag(1),
                }
            };
            let cellr = &w.wroots[0];
            for _ in 0..gap {
                cv::try_advance();
            }
            let g: TG = c.pin();
            let mut model: MV = (0, 0);
            let mut last: Option<TWS> = None;
            let mut last_mv: MV = (0, 0);
            let bad = |what: String| {
                mon().violate("C09", "cell-semantics", what);
            };
            let abs_s = |s: &TWS| crate::world::abs(mon(), cv::weak_snapshot_word(&s.s));
            let abs_w = |r: &Weak<Node>| crate::world::abs(mon(), cv::weak_word(r));
            for (step, op) in ops.iter().enumerate() {
                let expd = |e: WEx| -> (TWS, MV) {
                    match e {
                        WEx::Last => match last {
                            Some(s) => (s, last_mv),
                            None => (TWS { s: circ::WeakSnapshot::null(), gid: g.gid }, (0, 0)),
                        },
                        WEx::ViaSnapshot => {
                            let s = c.load(&w.roots[1], &g);
                            (c.sdowngrade(s), (1, 0))
                        }
                        WEx::ViaWeak => (c.wsnapshot(&wswapped, &g), (1, 0)),
                        WEx::Null => (TWS { s: circ::WeakSnapshot::null(), gid: g.gid }, (0, 0)),
                    }
                };
                match *op {
                    WCellOp::Load => {
                        let s = c.wload(cellr, &g);
                        let got = to_mv(abs_s(&s));
                        if got != model {
                            bad(format!("step {}: load returned {:?}, cell holds {:?}", step, got, model));
                        }
                        last = Some(s);
                        last_mv = got;
                    }
                    WCellOp::Store(v) => {
                        c.wstore(cellr, mk(c, v), &g);
                        model = mv_of(v);
                    }
                    WCellOp::Swap(v) => {
                        let old = c.wswap(cellr, mk(c, v));
                        let got = to_mv(abs_w(&old));
                        if got != model {
                            bad(format!("step {}: swap returned {:?}, cell held {:?}", step, got, model));
                        }
                        c.wdrop(old);
                        model = mv_of(v);
                    }
                    WCellOp::Cas(e, v) | WCellOp::CasWeak(e, v) => {
                        let weak = matches!(op, WCellOp::CasWeak(..));
                        let (exp, emv) = expd(e);
                        let des = mk(c, v);
                        let dmv = mv_of(v);
                        match c.wcas(cellr, exp, des, &g, weak) {
                            Ok(old) => {
                                let got = to_mv(abs_w(&old));
                                if emv != model {
                                    bad(format!("step {}: compare_exchange succeeded with expected {:?} while the cell held {:?}", step, emv, model));
                                }
                                if got != model {
                                    bad(format!("step {}: compare_exchange returned {:?} as previous, cell held {:?}", step, got, model));
                                }
                                c.wdrop(old);
                                model = dmv;
                            }
                            Err((des, cur)) => {
                                let gotc = to_mv(abs_s(&cur));
                                let gotd = to_mv(abs_w(&des));
                                if emv == model && !weak {
                                    bad(format!("step {}: compare_exchange with expected {:?} obtained {:?} failed although the cell holds the same pointer and tag (ptr_eq); epoch bits must not matter", step, emv, e));
                                }
                                if gotc != model {
                                    bad(format!("step {}: failed compare_exchange reported current {:?}, cell holds {:?}", step, gotc, model));
                                }
                                if gotd != dmv {
                                    bad(format!("step {}: failed compare_exchange returned desired {:?} instead of {:?}", step, gotd, dmv));
                                }
                                last = Some(cur);
                                last_mv = gotc;
                                c.wdrop(des);
                            }
                        }
                    }
                    WCellOp::CasTag(e, t) => {
                        let (exp, emv) = expd(e);
                        match c.wcas_tag(cellr, exp, t, &g) {
                            Ok(prev) => {
                                let got = to_mv(abs_s(&prev));
                                if emv != model {
                                    bad(format!("step {}: compare_exchange_tag succeeded with expected {:?} while the cell held {:?}", step, emv, model));
                                }
                                if got != model {
                                    bad(format!("step {}: compare_exchange_tag returned {:?} as previous, cell held {:?}", step, got, model));
                                }
                                model = (model.0, t % 8);
                            }
                            Err((des, cur)) => {
                                let gotc = to_mv(abs_s(&cur));
                                let gotd = to_mv(abs_s(&des));
                                if emv == model {
                                    bad(format!("step {}: compare_exchange_tag with expected {:?} obtained {:?} failed although the cell holds the same pointer and tag", step, emv, e));
                                }
                                if gotc != model {
                                    bad(format!("step {}: failed compare_exchange_tag reported current {:?}, cell holds {:?}", step, gotc, model));
                                }
                                if gotd != (emv.0, t % 8) {
                                    bad(format!("step {}: failed compare_exchange_tag returned desired {:?}", step, gotd));
                                }
                                last = Some(cur);
                                last_mv = gotc;
                            }
                        }
                    }
                    WCellOp::Adv => {
                        cv::try_advance();
                    }
                }
            }
            let s = c.wload(cellr, &g);
            let got = to_mv(abs_s(&s));
            if got != model {
                bad(format!("final load returned {:?}, model says {:?}", got, model));
            }
            c.unpin(g);
            c.rounds(5);
            c.wdrop(wswapped);
            c.wdrop(wx);
            c.wdrop(wy);
            c.drop_rc(hx);
            c.drop_rc(hy);
        })),
        claim: Some("C09"),
        ..base(p)
    }
}

// ---------------------------------------------------------------------------------- C06

pub const LAT_NS: [usize; 52] = [
    1, 2, 3, 4, 5, 6, 7, 8, 9, 10, 11, 12, 13, 14, 15, 16, 17, 18, 19, 20, 21, 22, 23, 24, 25, 26,
    27, 28, 29, 30, 31, 32, 33, 34, 35, 36, 37, 38, 39, 40, 64, 100, 1000, 1023, 1024, 1025, 2048,
    2049, 3000, 3072, 4097, 5000,
];

pub const LAT_SHAPES: usize = 6;

pub fn latency_bound(n: usize) -> usize {
    16 + 12 * n.div_ceil(1024)
}

/// shape 0 chain, 1 balanced tree, 2 left comb, 3 right comb, 4 right spine, 5 zig-zag.
/// Returns for node i (0 = root, built last) its children as (slot, child index).
fn lat_children(shape: i64, n: usize, i: usize) -> Vec<(usize, usize)> {
    match shape {
        0 => {
            if i + 1 < n {
                vec![(0, i + 1)]
            } else {
                vec![]
            }
        }
        1 => {
            let mut v = vec![];
            if 2 * i + 1 < n {
                v.push((0, 2 * i + 1));
            }
            if 2 * i + 2 < n {
                v.push((1, 2 * i + 2));
            }
            v
        }
        // right spine: a chain through slot 1 only (slot 0 stays null)
        4 => {
            if i + 1 < n {
                vec![(1, i + 1)]
            } else {
                vec![]
            }
        }
        // zig-zag: a chain alternating between slot 0 and slot 1
        5 => {
            if i + 1 < n {
                vec![(i % 2, i + 1)]
            } else {
                vec![]
            }
        }
        // combs: a spine of even indices, each spine node carries one leaf (odd index)
        2 | 3 => {
            if i % 2 == 1 {
                return vec![];
            }
            let (spine_slot, leaf_slot) = if shape == 2 { (0, 1) } else { (1, 0) };
            let mut v = vec![];
            if i + 2 < n {
                v.push((spine_slot, i + 2));
            }
            if i + 1 < n {
                v.push((leaf_slot, i + 1));
            }
            v
        }
        _ => vec![],
    }
}

pub const LAT_NS_QUICK: [usize; 18] = [1, 2, 3, 4, 5, 6, 7, 8, 9, 10, 11, 12, 13, 40, 100, 1000, 1025, 2049];

/// grid 0 (quick) / 1 (thorough): (n list, ages)
fn lat_grid(grid: i64) -> (&'static [usize], &'static [usize]) {
    if grid == 0 {
        (&LAT_NS_QUICK, &[3, 4])
    } else {
        (&LAT_NS, &[3, 4, 5, 6])
    }
}

pub fn latency_cases(grid: i64) -> i64 {
    let (ns, ages) = lat_grid(grid);
    (ns.len() * LAT_SHAPES * 16 * ages.len() * 2) as i64
}

fn latency(p: &Params) -> Program {
    // case -> (n, shape, held selector, age, mode)
    let (ns, ages) = lat_grid(p.get("grid", 0));
    let mut k = p.get("case", 0) as usize;
    let mode = (k % 2) as i64;
    k /= 2;
    let age = ages[k % ages.len()];
    k /= ages.len();
    let held_sel = k % 16;
    k /= 16;
    let shape = (k % LAT_SHAPES) as i64;
    k /= LAT_SHAPES;
    let n = ns[k % ns.len()];
    // held: -1 none, otherwise index of an externally held node
    let held: i64 = match held_sel {
        0 => -1,
        1 => 1,
        2 => (n / 2) as i64,
        3 => n as i64 - 1,
        s => {
            if n <= 14 {
                s as i64 - 2
            } else {
                -2
            }
        }
    };
    let pickup = p.get("pickup", 0);
    let skip = held == -2 || held >= n as i64 || (held_sel != 0 && held <= 0);
    let held = if skip { -1 } else { held };
    // mode 0: links written with store() (stamped); 1: links created by AtomicRc::from (unstamped)
    if skip {
        // not a distinct grid point for this n
        return Program {
            setup: Some(body(|_, _| {
                mon().cover("skipped-duplicate");
            })),
            ..base(p)
        };
    }
    Program {
        setup: Some(body(move |c, _w| {
            let g = c.pin();
            let mut nodes: Vec<Option<Rc<Node>>> = (0..n).map(|_| None).collect();
            let mut held_rc = None;
            for i in (0..n).rev() {
                let ch = lat_children(shape, n, i);
                let node = if mode == 1 {
                    let mut n0 = None;
                    let mut n1 = None;
                    for &(slot, j) in ch.iter() {
                        let r = nodes[j].take().unwrap();
                        if slot == 0 {
                            n0 = Some(r)
                        } else {
                            n1 = Some(r)
                        }
                    }
                    c.new_node_with(i as u32, n0, n1, None, 0b11)
                } else {
                    let nd = c.new_node(i as u32);
                    for &(slot, j) in ch.iter() {
                        let r = nodes[j].take().unwrap();
                        c.store(&c.node(&nd).next[slot], r, &g);
                    }
                    nd
                };
                if held == i as i64 {
                    held_rc = Some(c.clone_rc(&node));
                }
                nodes[i] = Some(node);
            }
            c.unpin(g);
            let head = nodes[0].take().unwrap();
            c.rounds(age);
            // size of the part that must survive: the held node's subtree
            let mut survive = 0usize;
            if held >= 0 {
                let mut st = vec![held as usize];
                while let Some(i) = st.pop() {
                    survive += 1;
                    for (_, j) in lat_children(shape, n, i) {
                        st.push(j);
                    }
                }
            }
            let bound = latency_bound(n);
            let wait = |c: &Ctx, target: u64, what: &str| {
                let e_start = cv::global_epoch();
                let mut used = 0usize;
                loop {
                    let done = mon().destructs;
                    if done >= target {
                        break;
                    }
                    if used > bound {
                        mon().violate(
                            "C06",
                            "too-many-grace-periods",
                            format!(
                                "{}: only {} of {} nodes destructed {} epochs after the drop (n={}, bound {})",
                                what, done, target, used, n, bound
                            ),
                        );
                        break;
                    }
                    c.round();
                    used += 1;
                }
                let e_last = mon().last_destruct_epoch.unwrap_or(e_start);
                let lat = e_last.wrapping_sub(e_start);
                let m = mon();
                m.mix_outcome(0x6000 ^ lat as u64);
                m.max_latency = m.max_latency.max(lat);
                if lat > bound {
                    m.violate(
                        "C06",
                        "too-many-grace-periods",
                        format!("{}: last destructor ran {} epochs after the drop (n={}, bound {})", what, lat, n, bound),
                    );
                }
            };
            if pickup == 0 {
                c.drop_rc(head);
            } else {
                // the head is picked up again through a weak pointer while its destruction is
                // pending (count 0, attempt deferred), and released again: whoever revives it
                // leaves a permission behind that the pending attempt must give back
                let wk = c.downgrade(&head);
                c.drop_rc(head);
                match pickup {
                    1 => {
                        if let Some(r) = c.upgrade(&wk) {
                            c.drop_rc(r);
                        }
                    }
                    2 => {
                        if let Some(r) = c.upgrade(&wk) {
                            c.rounds(4);
                            c.deref(&r);
                            c.drop_rc(r);
                        }
                    }
                    _ => {
                        let g = c.pin();
                        let ws = c.wsnapshot(&wk, &g);
                        if let Some(s) = c.ws_upgrade(ws) {
                            c.sderef(s);
                        }
                        c.unpin(g);
                    }
                }
                c.wdrop(wk);
            }
            wait(c, (n - survive) as u64, "dropping the head");
            if let Some(h) = held_rc {
                // the held node and everything below it must have survived
                c.rounds(4);
                c.deref(&h);
                let mut st = vec![c.clone_rc(&h)];
                let gg = c.pin();
                let mut seen = 0usize;
                while let Some(r) = st.pop() {
                    seen += 1;
                    c.deref(&r);
                    for slot in 0..2 {
                        let s = c.load(&c.node(&r).next[slot], &gg);
                        if !s.s.is_null() {
                            st.push(c.counted(s));
                        }
                    }
                    c.drop_rc(r);
                }
                c.unpin(gg);
                if seen != survive {
                    mon().violate("C06", "held-subtree-damaged", format!("held subtree has {} live nodes, expected {}", seen, survive));
                }
                c.drop_rc(h);
                wait(c, n as u64, "dropping the held node");
            }
        })),
        stack: 16 << 20,
        drain_max: 40,
        ..base(p)
    }
}

// ---------------------------------------------------------------------------------- C12 (d)

pub fn decision_triples() -> &'static Vec<(usize, usize, usize)> {
    static S: OnceLock<Vec<(usize, usize, usize)>> = OnceLock::new();
    S.get_or_init(|| {
        let mut v = vec![];
        for ap in 3..=20 {
            for al in ap..=24 {
                for a_s in 0..=24 {
                    v.push((ap, al, a_s));
                }
            }
        }
        v
    })
}

fn cascade_decision(p: &Params) -> Program {
    // True ages (in epochs, at the time the parent's cascade runs) of the parent's stamp (>= 3,
    // the epoch it was unlinked in), of the link's stamp (>= the parent's: it is written while the
    // parent is reachable) and of the child's own stamp (its last decrement that left it alive).
    let (a_p, a_l, a_s) = decision_triples()[p.get("case", 0) as usize];
    assert!(a_p >= 3 && a_l >= a_p);
    Program {
        setup: Some(body(move |c, w| {
            let horizon = a_p.max(a_l).max(a_s);
            let parent = c.new_node(1);
            let child = c.new_node(2);
            let mut extra = Some(c.clone_rc(&child));
            let mut child = Some(child);
            let g = c.pin();
            c.store(&w.roots[0], parent, &g);
            c.unpin(g);
            // The cascade runs at epoch E; step t happens at epoch E - t.
            for t in (1..=horizon).rev() {
                let mut advanced = false;
                if t == a_l {
                    let g = c.pin();
                    let ps = c.load(&w.roots[0], &g);
                    c.store(&c.snode(ps).next[0], child.take().unwrap(), &g);
                    c.unpin(g);
                }
                if t == a_s {
                    c.drop_rc(extra.take().unwrap());
                }
                if t == a_p {
                    // unlink the parent and seal its attempt at this epoch; the collection that
                    // the flush schedules advances the epoch once and finds nothing expired
                    let g = c.pin();
                    c.store(&w.roots[0], Rc::null(), &g);
                    c.flush(&g);
                    c.unpin(g);
                    advanced = true;
                }
                if !advanced {
                    if t == 1 {
                        // the collection of this round advances to E and runs the parent's attempt
                        c.round();
                    } else {
                        cv::try_advance();
                    }
                }
            }
            let m = mon();
            let immediate = m.objs.get(1).map(|o| o.decided && o.decided_depth == 1).unwrap_or(false);
            let parent_done = m.objs.first().map(|o| o.begun == 1).unwrap_or(false);
            let young = a_l.min(a_s).min(a_p);
            m.mix_outcome(0xc12 ^ ((immediate as u64) << 20) ^ ((parent_done as u64) << 21));
            if immediate {
                m.cover("child-immediate");
            } else {
                m.cover("child-deferred");
            }
            if !parent_done {
                m.violate("C12", "harness-timing", format!("parent not destructed at the planned epoch (ap={}, al={}, as={})", a_p, a_l, a_s));
            }
            if immediate && young < 3 {
                m.violate(
                    "C12",
                    "classified-old-too-early",
                    format!("child reclaimed in the parent's pass although its youngest stamp is only {} epoch(s) old (parent {}, link {}, child {})", young, a_p, a_l, a_s),
                );
            }
            if !immediate && a_p.max(a_l).max(a_s) <= 13 && young >= 3 {
                m.violate(
                    "C12",
                    "window-stamp-classified-recent",
                    format!("child deferred although all stamps are inside the unambiguous window and at least 3 old (parent {}, link {}, child {})", a_p, a_l, a_s),
                );
            }
            if let Some(x) = extra.take() {
                c.drop_rc(x);
            }
        })),
        ..base(p)
    }
}

// ------------------------------------------------------------------------------ conversions

/// Conversions between the pointer kinds that create or move an owner without going through the
/// operations the other families use: `From` impls, `AtomicRc::new/take`, `AtomicWeak::get_mut`.
pub const CONV_KINDS: usize = 14;
pub fn conv_cases() -> i64 {
    (CONV_KINDS * 2 * 12) as i64
}

enum Produced {
    R(Rc<Node>),
    W(Weak<Node>),
    Cell(Box<circ::AtomicRc<Node>>),
    WCell(Box<circ::AtomicWeak<Node>>),
}

fn conv(p: &Params) -> Program {
    let mut k = p.get("case", 0) as usize;
    let kind = k % CONV_KINDS;
    k /= CONV_KINDS;
    let produced_first = k % 2 == 0;
    k /= 2;
    let r1 = [0usize, 1, 4][k % 3];
    // (8: long enough for the destruction AND the deferred release of the block to have run)
    let r2 = [0usize, 1, 4, 8][(k / 3) % 4];
    // `only`: bit mask of the conversion kinds to run (0 = all)
    let only = p.get("only", 0);
    if only != 0 && only & (1 << kind) == 0 {
        return Program {
            setup: Some(body(|_, _| {
                mon().cover("skipped-not-selected");
            })),
            ..base(p)
        };
    }
    Program {
        setup: Some(body(move |c, w| {
            use circ::{AtomicRc, AtomicWeak, WeakSnapshot};
            let g = c.pin();
            let hy = c.new_node(2);
            let hx = c.new_node(1);
            c.store(&c.node(&hx).next[0], c.clone_rc(&hy), &g);
            c.store(&w.roots[0], c.clone_rc(&hx), &g);
            c.wstore(&w.wroots[0], c.downgrade(&hx), &g);
            let reg = |cell: &AtomicRc<Node>| mon().register_cell(cell as *const _ as usize, cv::link_word(cell), false);
            let wreg = |cell: &AtomicWeak<Node>| mon().register_cell(cell as *const _ as usize, cv::wlink_word(cell), true);
            let produced = match kind {
                0 => {
                    let s = c.load(&w.roots[0], &g);
                    let r = Rc::from(s.s);
                    mon().acquire(cv::rc_word(&r), false);
                    Produced::R(r)
                }
                1 => {
                    let s = c.load(&w.roots[0], &g);
                    let wk = Weak::from(s.s);
                    mon().acquire(cv::weak_word(&wk), true);
                    Produced::W(wk)
                }
                2 => {
                    let ws = c.wload(&w.wroots[0], &g);
                    let wk = Weak::from(ws.s);
                    mon().acquire(cv::weak_word(&wk), true);
                    Produced::W(wk)
                }
                3 => {
                    let s = c.load(&w.roots[0], &g);
                    let ws = WeakSnapshot::from(s.s);
                    mon().hold(c.t, g.gid, cv::weak_snapshot_word(&ws), true);
                    Produced::W(c.ws_counted(crate::world::TWS { s: ws, gid: g.gid }))
                }
                4 => {
                    let cell = Box::new(AtomicRc::from(&hx));
                    reg(&cell);
                    Produced::Cell(cell)
                }
                5 => {
                    let r = c.clone_rc(&hx);
                    mon().release(cv::rc_word(&r), false);
                    let cell = Box::new(AtomicRc::from(r));
                    reg(&cell);
                    Produced::Cell(cell)
                }
                6 => {
                    let wk = c.downgrade(&hx);
                    mon().release(cv::weak_word(&wk), true);
                    let cell = Box::new(AtomicWeak::from(wk));
                    wreg(&cell);
                    Produced::WCell(cell)
                }
                7 => {
                    let wk = c.downgrade(&hx);
                    let cell = Box::new(AtomicWeak::from(&wk));
                    wreg(&cell);
                    c.wdrop(wk);
                    Produced::WCell(cell)
                }
                8 => {
                    let cell = Box::new(AtomicWeak::from(&hx));
                    wreg(&cell);
                    Produced::WCell(cell)
                }
                9 => {
                    // the cell first refers to y; exclusive access replaces that by x
                    let mut cell = Box::new(AtomicWeak::from(&hy));
                    wreg(&cell);
                    let wk = c.downgrade(&hx);
                    let word = cv::weak_word(&wk);
                    mon().release(word, true);
                    *cell.get_mut() = wk;
                    mon().cell_assign(&*cell as *const _ as usize, word);
                    Produced::WCell(cell)
                }
                10 => {
                    let mut cell = Box::new(AtomicRc::from(&hx));
                    reg(&cell);
                    mon().cur_op[c.t] = crate::monitor::CurOp::SwapLike;
                    let r = cell.take();
                    mon().settle(c.t, false, true);
                    drop(cell);
                    Produced::R(r)
                }
                12 => {
                    // re-tagging an owning pointer moves its share into the result
                    let wk = c.downgrade(&hx).with_tag(1);
                    if wk.tag() != 1 {
                        mon().violate("C11", "weak-tag", "Weak::with_tag(1) did not set the tag".into());
                    }
                    Produced::W(wk)
                }
                13 => {
                    let r = c.clone_rc(&hx).with_tag(1);
                    Produced::R(r)
                }
                _ => {
                    // a new object owned by nothing but the link
                    let before = mon().objs.len();
                    let cell = Box::new(AtomicRc::new(Ctx::plain_node(3)));
                    let m = mon();
                    if m.objs.len() == before + 1 {
                        let addr = m.objs[before].addr;
                        let s = cell.load(std::sync::atomic::Ordering::SeqCst, &g.g);
                        c.adopt_new(addr, 3, unsafe { s.deref() });
                    }
                    reg(&cell);
                    Produced::Cell(cell)
                }
            };
            c.unpin(g);
            let release_produced = |c: &Ctx, pr: Produced| match pr {
                Produced::R(r) => {
                    c.deref(&r);
                    c.drop_rc(r);
                }
                Produced::W(wk) => {
                    if let Some(r) = c.upgrade(&wk) {
                        c.deref(&r);
                        c.drop_rc(r);
                    }
                    c.wdrop(wk);
                }
                Produced::Cell(cell) => {
                    let g = c.pin();
                    let s = c.load(&cell, &g);
                    if !s.s.is_null() {
                        c.sderef(s);
                        let r = c.counted(s);
                        c.deref(&r);
                        c.drop_rc(r);
                    } else {
                        mon().violate("C08", "cell-semantics", "a link built from an object is null".into());
                    }
                    c.unpin(g);
                    drop(cell);
                }
                Produced::WCell(cell) => {
                    let g = c.pin();
                    let ws = c.wload(&cell, &g);
                    if ws.s.is_null() {
                        mon().violate("C09", "cell-semantics", "a weak link built from an object is null".into());
                    } else if let Some(s) = c.ws_upgrade(ws) {
                        c.sderef(s);
                    }
                    c.unpin(g);
                    drop(cell);
                }
            };
            let release_originals = |c: &Ctx, hx: Rc<Node>, hy: Rc<Node>| {
                let g = c.pin();
                c.drop_rc(hx);
                c.drop_rc(hy);
                c.store(&w.roots[0], Rc::null(), &g);
                c.wstore(&w.wroots[0], Weak::null(), &g);
                c.unpin(g);
            };
            c.rounds(r1);
            if produced_first {
                release_produced(c, produced);
                c.rounds(r2);
                release_originals(c, hx, hy);
            } else {
                release_originals(c, hx, hy);
                c.rounds(r2);
                release_produced(c, produced);
            }
            c.rounds(4);
        })),
        ..base(p)
    }
}

// ------------------------------------------------------------------------ C06, busy holders

/// A comb whose every side leaf is held from outside by a holder that keeps using it (clones and
/// releases a reference in every round, which re-stamps the leaf): the spine is unreferenced and
/// must still go in a constant number of epochs, whatever the stamps of the leaves next to it.
/// case -> (n of spine nodes, which slot carries the spine, link construction)
pub const BUSY_NS: [usize; 5] = [2, 5, 12, 33, 80];
pub fn latency_busy_cases() -> i64 {
    (BUSY_NS.len() * 2 * 2) as i64
}

fn latency_busy(p: &Params) -> Program {
    let mut k = p.get("case", 0) as usize;
    let spine_slot = k % 2;
    k /= 2;
    let from = k % 2 == 1;
    k /= 2;
    let n = BUSY_NS[k % BUSY_NS.len()];
    let age = p.get("age", 4) as usize;
    Program {
        setup: Some(body(move |c, _w| {
            let g = c.pin();
            let mut leaves: Vec<Rc<Node>> = vec![];
            let mut next: Option<Rc<Node>> = None;
            for i in (0..n).rev() {
                let leaf = c.new_node(1000 + i as u32);
                leaves.push(c.clone_rc(&leaf));
                let (a, b) = if spine_slot == 1 { (Some(leaf), next.take()) } else { (next.take(), Some(leaf)) };
                let nd = if from {
                    c.new_node_with(i as u32 + 1, a, b, None, 0b11)
                } else {
                    let nd = c.new_node(i as u32 + 1);
                    if let Some(r) = a {
                        c.store(&c.node(&nd).next[0], r, &g);
                    }
                    if let Some(r) = b {
                        c.store(&c.node(&nd).next[1], r, &g);
                    }
                    nd
                };
                next = Some(nd);
            }
            c.unpin(g);
            c.rounds(age);
            let touch = |c: &Ctx| {
                for l in leaves.iter() {
                    let t = c.clone_rc(l);
                    c.drop_rc(t);
                }
            };
            touch(c);
            let before = mon().destructs;
            c.drop_rc(next.take().unwrap());
            let bound = latency_bound(n);
            let mut used = 0usize;
            while mon().destructs < before + n as u64 {
                if used > bound {
                    let done = mon().destructs - before;
                    mon().violate(
                        "C06",
                        "too-many-grace-periods",
                        format!("comb with busy held leaves: only {} of {} spine nodes destructed {} epochs after the drop (bound {})", done, n, used, bound),
                    );
                    break;
                }
                touch(c);
                c.round();
                used += 1;
            }
            mon().mix_outcome(0x6200 ^ used as u64);
            if mon().destructs > before + n as u64 {
                mon().violate("C06", "held-node-destructed", "a leaf that is held from outside was destructed".into());
            }
            for l in leaves.iter() {
                c.deref(l);
            }
            for l in leaves.drain(..) {
                c.drop_rc(l);
            }
            c.rounds(4);
        })),
        ..base(p)
    }
}
