//! Glue between circ's hook table, the scheduler and the monitor.

use circ::verif::{self as cv, Class, Event, Hooks};

use crate::monitor::try_mon;
use crate::sched;

fn point(class: Class, addr: usize) {
    if sched::tid() == sched::NONE {
        return;
    }
    if class == Class::State {
        if let Some(m) = try_mon() {
            m.state_point(addr);
        }
    }
    sched::point(class as u8, addr);
}

fn event(ev: &Event) {
    if sched::tid() == sched::NONE {
        return;
    }
    if let Some(m) = try_mon() {
        m.on_event(ev);
    }
}

fn quarantine(addr: usize) -> bool {
    if sched::tid() == sched::NONE {
        return false;
    }
    match try_mon() {
        Some(m) if m.quarantine_on => {
            m.quarantined.push(addr);
            true
        }
        _ => false,
    }
}

static HOOKS: Hooks = Hooks {
    point,
    event,
    quarantine,
};

pub fn install() {
    cv::install(&HOOKS);
}
