//! Execution server: one process per (scenario, parameters); runs one execution per request
//! line and answers with one JSON line. After an execution that leaves the process dirty
//! (violation, stuck threads, pending garbage) it answers and exits; the parent starts a new one.

use std::io::{BufRead, Write};

use serde_json::{json, Value};

use crate::exec::{self, ExecResult, Params};
use crate::scen;
use crate::sched::Dec;

pub fn encode_decisions(d: &[Dec]) -> (String, String) {
    let mut shape = String::with_capacity(d.len());
    let mut choices = String::with_capacity(d.len());
    for x in d {
        shape.push((b'a' + (x.n - 2) + if x.preemptible { 8 } else { 0 }) as char);
        choices.push((b'0' + x.choice) as char);
    }
    (shape, choices)
}

pub fn decode_decisions(shape: &str, choices: &str) -> Vec<Dec> {
    shape
        .bytes()
        .zip(choices.bytes())
        .map(|(s, c)| {
            let v = s - b'a';
            Dec {
                n: (v & 7) + 2,
                preemptible: v & 8 != 0,
                choice: c - b'0',
            }
        })
        .collect()
}

pub fn encode_prefix(p: &[u8]) -> String {
    if p.is_empty() {
        "-".to_string()
    } else {
        p.iter().map(|c| (b'0' + c) as char).collect()
    }
}

pub fn decode_prefix(s: &str) -> Vec<u8> {
    if s == "-" {
        Vec::new()
    } else {
        s.bytes().map(|b| b - b'0').collect()
    }
}

pub fn result_to_json(r: &ExecResult) -> Value {
    let (shape, choices) = encode_decisions(&r.decisions);
    json!({
        "d": shape,
        "c": choices,
        "h": format!("{:016x}", r.hash),
        "o": format!("{:016x}", r.outcome),
        "st": r.steps,
        "sw": r.switches,
        "ev": r.events,
        "div": r.diverged,
        "to": r.timed_out,
        "pan": r.panics.iter().map(|(t, m)| json!([t, m])).collect::<Vec<_>>(),
        "cov": r.cover.iter().map(|(k, v)| json!([k, v])).collect::<Vec<_>>(),
        "notes": r.notes,
        "foreign": r.foreign,
        "dirty": r.dirty,
        "v": r.violation.as_ref().map(|v| json!({
            "prop": v.prop, "kind": v.kind, "detail": v.detail, "tid": v.tid, "op": v.op, "clock": v.clock
        })),
        "trace": r.trace,
    })
}

pub fn serve(scenario: &str, params: &Params, core: usize) {
    crate::pin_to_core(core);
    let def = scen::find(scenario).unwrap_or_else(|| {
        eprintln!("unknown scenario {}", scenario);
        std::process::exit(2)
    });
    let stdin = std::io::stdin();
    let stdout = std::io::stdout();
    let mut line = String::new();
    loop {
        line.clear();
        if stdin.lock().read_line(&mut line).unwrap_or(0) == 0 {
            return;
        }
        let mut it = line.split_whitespace();
        let Some(case) = it.next() else { continue };
        if case == "quit" {
            return;
        }
        let case: i64 = case.parse().expect("case");
        let prefix = decode_prefix(it.next().unwrap_or("-"));
        let trace = it.next() == Some("trace");
        let p = params.clone().set("case", case);
        let prog = exec::unclaim(&p, (def.build)(&p));
        let focus = exec::claim_of(&Params::default().set("claim", params.get("focus", 0)));
        let r = exec::run_one(prog, &prefix, trace, focus);
        let v = result_to_json(&r);
        let mut out = stdout.lock();
        let _ = writeln!(out, "{}", v);
        let _ = out.flush();
        if r.dirty {
            // Do not run destructors: threads are parked mid-operation.
            unsafe { libc::_exit(0) };
        }
    }
}
