//! The driver: node type, shared world, and one instrumented wrapper per API call.
//!
//! Every wrapper records invocation and response in the monitor, performs exactly one real API
//! call in between, and updates the shadow ownership at the right end of the call.

use std::cell::UnsafeCell;
use std::sync::atomic::{AtomicU32, Ordering};

use circ::verif as cv;
use circ::{AtomicRc, AtomicWeak, Guard, Rc, RcObject, Snapshot, Weak, WeakSnapshot};

use crate::monitor::{mon, try_mon, CurOp, Monitor};
use crate::sched;

pub const LIVE: u32 = 0x11fe_11fe;
pub const DEAD: u32 = 0xdead_dead;
const SC: Ordering = Ordering::SeqCst;

/// `pop_mask` of nodes made by `Ctx::new_node` (parameter `dpop` of any scenario; default: both
/// edges popped, plain destructor).
/// The world of the running execution, for destructors that read from it (`pop_mask` bit 4).
pub static DTOR_WORLD: std::sync::atomic::AtomicUsize = std::sync::atomic::AtomicUsize::new(0);
pub static DEFAULT_POP: std::sync::atomic::AtomicU8 = std::sync::atomic::AtomicU8::new(0b11);

pub struct Node {
    pub id: u32,
    pub magic: AtomicU32,
    pub next: [AtomicRc<Node>; 2],
    pub back: AtomicWeak<Node>,
    /// bits 0-1: which `next` edges `pop_edges` hands to the cascade (the others go through
    /// `Drop`); bit 2: the destructor itself enters a critical section and flushes (a destructor
    /// that uses the library re-enters the collector that is running it)
    pub pop_mask: u8,
}

unsafe impl RcObject for Node {
    fn pop_edges(&mut self, out: &mut Vec<Rc<Self>>) {
        if let Some(m) = try_mon() {
            m.payload_pop(self.id);
        }
        for i in 0..2 {
            if self.pop_mask & (1 << i) != 0 {
                out.push(self.next[i].take());
            }
        }
    }
}

impl Drop for Node {
    fn drop(&mut self) {
        self.magic.store(DEAD, Ordering::Relaxed);
        if let Some(m) = try_mon() {
            m.payload_drop(self.id);
        }
        if self.pop_mask & 4 != 0 {
            let g = circ::cs();
            g.flush();
        }
        if self.pop_mask & 16 != 0 {
            // a destructor that reads (bit 4): under a guard of its own it loads roots[0] of the
            // execution's world and goes on using the Snapshot while it flushes three times
            let wp = DTOR_WORLD.load(Ordering::Relaxed);
            if wp != 0 && try_mon().is_some() && sched::tid() < sched::MAX_THREADS {
                let w = unsafe { &*(wp as *const World) };
                let c = Ctx::new();
                let g = c.pin();
                let s = c.load(&w.roots[0], &g);
                if !s.s.is_null() {
                    for _ in 0..3 {
                        c.sderef(s);
                        c.flush(&g);
                    }
                    c.sderef(s);
                    mon().cover("destructor-read-under-own-guard");
                }
                c.unpin(g);
            }
        }
        if self.pop_mask & 8 != 0 {
            // gates of a long cascade (bit 3): every 130th node's destructor advances the epoch
            // (from inside the cascade, right after the cascade's own re-pin at every 128th
            // node), and node 395's is a scheduling point for the other threads
            if self.id % 130 == 0 {
                circ::verif::try_advance();
            }
            if self.id == 395 {
                sched::point(sched::CLASS_DEREF, 0);
            }
        }
    }
}

/// A mailbox through which phases hand values to each other. Only the thread holding the
/// scheduler's baton touches it, and never across a circ call.
pub struct Slot<T>(UnsafeCell<Option<T>>);
unsafe impl<T> Sync for Slot<T> {}
unsafe impl<T> Send for Slot<T> {}
impl<T> Default for Slot<T> {
    fn default() -> Self {
        Slot(UnsafeCell::new(None))
    }
}
impl<T> Slot<T> {
    pub fn put(&self, v: T) {
        unsafe { *self.0.get() = Some(v) }
    }
    pub fn take(&self) -> T {
        unsafe { (*self.0.get()).take().expect("empty slot") }
    }
    pub fn try_take(&self) -> Option<T> {
        unsafe { (*self.0.get()).take() }
    }
    #[allow(clippy::mut_from_ref)]
    pub fn get(&self) -> &T {
        unsafe { (*self.0.get()).as_ref().expect("empty slot") }
    }
    pub fn is_some(&self) -> bool {
        unsafe { (*self.0.get()).is_some() }
    }
}

pub const NSLOTS: usize = 12;

/// Shared state of one execution.
pub struct World {
    pub roots: [AtomicRc<Node>; 3],
    pub wroots: [AtomicWeak<Node>; 2],
    pub rc: [Slot<Rc<Node>>; NSLOTS],
    pub weak: [Slot<Weak<Node>>; NSLOTS],
    pub vals: [AtomicU32; 8],
}

impl World {
    pub fn new() -> Box<World> {
        let w = Box::new(World {
            roots: [AtomicRc::null(), AtomicRc::null(), AtomicRc::null()],
            wroots: [AtomicWeak::null(), AtomicWeak::null()],
            rc: Default::default(),
            weak: Default::default(),
            vals: Default::default(),
        });
        let m = mon();
        for r in w.roots.iter() {
            m.register_cell(r as *const _ as usize, 0, false);
        }
        for r in w.wroots.iter() {
            m.register_cell(r as *const _ as usize, 0, true);
        }
        w
    }
}

pub struct TG {
    pub g: Guard,
    pub gid: u32,
}

pub struct TS<'g> {
    pub s: Snapshot<'g, Node>,
    pub gid: u32,
}
impl<'g> Clone for TS<'g> {
    fn clone(&self) -> Self {
        *self
    }
}
impl<'g> Copy for TS<'g> {}

pub struct TWS<'g> {
    pub s: WeakSnapshot<'g, Node>,
    pub gid: u32,
}
impl<'g> Clone for TWS<'g> {
    fn clone(&self) -> Self {
        *self
    }
}
impl<'g> Copy for TWS<'g> {}

/// Abstract value of a raw word: (object ordinal + 1) * 16 + tag, 0-based for null.
pub fn abs(m: &Monitor, word: usize) -> i64 {
    let tag = cv::word_tag::<Node>(word) as i64;
    match m.obj_of_word(word) {
        Some(o) => (o as i64 + 1) * 16 + tag,
        None => {
            if cv::word_addr::<Node>(word) == 0 {
                tag
            } else {
                -1
            }
        }
    }
}

fn cell_id(m: &mut Monitor, addr: usize) -> i64 {
    m.canon_of(addr) as i64
}

pub struct Ctx {
    pub t: usize,
}

impl Ctx {
    pub fn new() -> Ctx {
        let t = sched::tid();
        assert!(t < sched::MAX_THREADS, "driver code must run on a scheduler thread");
        Ctx { t }
    }

    // ------------------------------------------------------------------ Rc

    pub fn new_node(&self, id: u32) -> Rc<Node> {
        self.new_node_with(id, None, None, None, DEFAULT_POP.load(Ordering::Relaxed))
    }

    pub fn new_node_with(
        &self,
        id: u32,
        n0: Option<Rc<Node>>,
        n1: Option<Rc<Node>>,
        back: Option<Weak<Node>>,
        pop_mask: u8,
    ) -> Rc<Node> {
        let m = mon();
        let i = m.op_begin(self.t, "new", [id as i64, 0, 0, 0]);
        for r in [&n0, &n1].into_iter().flatten() {
            m.release(cv::rc_word(r), false);
        }
        if let Some(w) = &back {
            m.release(cv::weak_word(w), true);
        }
        let node = Node {
            id,
            magic: AtomicU32::new(LIVE),
            next: [
                n0.map(AtomicRc::from).unwrap_or_else(AtomicRc::null),
                n1.map(AtomicRc::from).unwrap_or_else(AtomicRc::null),
            ],
            back: back.map(AtomicWeak::from).unwrap_or_else(AtomicWeak::null),
            pop_mask,
        };
        let rc = Rc::new(node);
        let w = cv::rc_word(&rc);
        let m = mon();
        m.bind_node(w, id);
        let n = unsafe { rc.deref() };
        for c in n.next.iter() {
            m.register_cell(c as *const _ as usize, cv::link_word(c), false);
        }
        m.register_cell(&n.back as *const _ as usize, cv::wlink_word(&n.back), true);
        m.acquire(w, false);
        let a = abs(m, w);
        m.op_end(i, [a, 0, 0, 0]);
        rc
    }

    /// Registers an object created by a bulk constructor (`shares` owners certainly exist).
    pub fn adopt_new(&self, word: usize, id: u32, node: &Node) {
        let m = mon();
        m.bind_node(word, id);
        for c in node.next.iter() {
            m.register_cell(c as *const _ as usize, cv::link_word(c), false);
        }
        m.register_cell(
            &node.back as *const _ as usize,
            cv::wlink_word(&node.back),
            true,
        );
    }

    pub fn plain_node(id: u32) -> Node {
        Node {
            id,
            magic: AtomicU32::new(LIVE),
            next: [AtomicRc::null(), AtomicRc::null()],
            back: AtomicWeak::null(),
            pop_mask: 0b11,
        }
    }

    /// `Rc::new_many::<N>`: N owners at once.
    pub fn new_many<const N: usize>(&self, id: u32) -> [Rc<Node>; N] {
        let m = mon();
        let i = m.op_begin(self.t, "new_many", [id as i64, N as i64, 0, 0]);
        let before = m.objs.len();
        let arr = Rc::new_many::<N>(Self::plain_node(id));
        let m = mon();
        let mut a = 0;
        if m.objs.len() == before + 1 {
            let addr = m.objs[before].addr;
            m.bind_node(addr, id);
            a = abs(m, addr);
            for r in arr.iter() {
                m.acquire(cv::rc_word(r), false);
            }
            if let Some(r) = arr.first() {
                let n = unsafe { r.deref() };
                for c in n.next.iter() {
                    m.register_cell(c as *const _ as usize, cv::link_word(c), false);
                }
                m.register_cell(&n.back as *const _ as usize, cv::wlink_word(&n.back), true);
            }
        }
        m.op_end(i, [a, N as i64, 0, 0]);
        arr
    }

    /// `Rc::new_many_iter`: the shares not yet yielded are owned by the iterator.
    pub fn new_iter(&self, id: u32, count: usize) -> circ::NewRcIter<Node> {
        let m = mon();
        let i = m.op_begin(self.t, "new_many_iter", [id as i64, count as i64, 0, 0]);
        let before = m.objs.len();
        let it = Rc::new_many_iter(Self::plain_node(id), count);
        let m = mon();
        let mut a = 0;
        if m.objs.len() == before + 1 {
            let addr = m.objs[before].addr;
            m.bind_node(addr, id);
            a = abs(m, addr);
            m.objs[before].held += count as i32;
        }
        m.op_end(i, [a, count as i64, 0, 0]);
        it
    }

    pub fn iter_next(&self, it: &mut circ::NewRcIter<Node>) -> Option<Rc<Node>> {
        let m = mon();
        let i = m.op_begin(self.t, "iter_next", [0; 4]);
        let r = it.next();
        let m = mon();
        let a = r.as_ref().map(|r| abs(m, cv::rc_word(r))).unwrap_or(-1);
        m.op_end(i, [a, 0, 0, 0]);
        r
    }

    /// `obj` is the abstract value returned by `new_iter`, `remain` the shares not yet yielded.
    pub fn iter_abort(&self, it: circ::NewRcIter<Node>, obj: i64, remain: usize, g: &TG) {
        let m = mon();
        let i = m.op_begin(self.t, "iter_abort", [obj, remain as i64, 0, 0]);
        if obj >= 16 {
            m.objs[(obj / 16 - 1) as usize].held -= remain as i32;
        }
        it.abort(&g.g);
        mon().op_end(i, [0; 4]);
    }

    pub fn iter_drop(&self, it: circ::NewRcIter<Node>, obj: i64, remain: usize) {
        let m = mon();
        let i = m.op_begin(self.t, "iter_drop", [obj, remain as i64, 0, 0]);
        if obj >= 16 {
            m.objs[(obj / 16 - 1) as usize].held -= remain as i32;
        }
        drop(it);
        mon().op_end(i, [0; 4]);
    }

    /// `Rc::weak_many::<N>`; returns the array as delivered (the caller judges its contents).
    pub fn weak_many<const N: usize>(&self, r: &Rc<Node>) -> [Weak<Node>; N] {
        let w = cv::rc_word(r);
        let m = mon();
        let a = abs(m, w);
        let i = m.op_begin(self.t, "weak_many", [a, N as i64, 0, 0]);
        let arr = r.weak_many::<N>();
        let m = mon();
        let mut nonnull = 0;
        for x in arr.iter() {
            if m.acquire(cv::weak_word(x), true).is_some() {
                nonnull += 1;
            }
        }
        m.op_end(i, [a, nonnull, 0, 0]);
        arr
    }

    pub fn clone_rc(&self, r: &Rc<Node>) -> Rc<Node> {
        let w = cv::rc_word(r);
        let m = mon();
        let a = abs(m, w);
        let i = m.op_begin(self.t, "clone", [a, 0, 0, 0]);
        let c = r.clone();
        let m = mon();
        m.acquire(cv::rc_word(&c), false);
        m.op_end(i, [a, 0, 0, 0]);
        c
    }

    pub fn drop_rc(&self, r: Rc<Node>) {
        let w = cv::rc_word(&r);
        let m = mon();
        let a = abs(m, w);
        let i = m.op_begin(self.t, "drop", [a, 0, 0, 0]);
        m.release(w, false);
        drop(r);
        mon().op_end(i, [0; 4]);
    }

    pub fn finalize(&self, r: Rc<Node>, g: &TG) {
        let w = cv::rc_word(&r);
        let m = mon();
        let a = abs(m, w);
        let i = m.op_begin(self.t, "finalize", [a, g.gid as i64, 0, 0]);
        m.release(w, false);
        r.finalize(&g.g);
        mon().op_end(i, [0; 4]);
    }

    /// Dereferences an owned pointer and checks that the object is alive. Returns the node id.
    pub fn deref(&self, r: &Rc<Node>) -> i64 {
        let w = cv::rc_word(r);
        let m = mon();
        let a = abs(m, w);
        let i = m.op_begin(self.t, "deref", [a, 0, 0, 0]);
        sched::point(sched::CLASS_DEREF, 0);
        let res = match r.as_ref() {
            None => -1,
            Some(n) => {
                let magic = n.magic.load(Ordering::Relaxed);
                if magic != LIVE {
                    mon().violate(
                        "C01",
                        "deref-dead",
                        format!(
                            "dereferencing an owned Rc read a destructed object (magic {:#x})",
                            magic
                        ),
                    );
                }
                n.id as i64
            }
        };
        mon().op_end(i, [res, 0, 0, 0]);
        res
    }

    /// Reference to the node behind an owned pointer (for reaching its links).
    pub fn node<'a>(&self, r: &'a Rc<Node>) -> &'a Node {
        let n = unsafe { r.deref() };
        if n.magic.load(Ordering::Relaxed) != LIVE {
            mon().violate(
                "C01",
                "deref-dead",
                "reaching a link through an owned Rc read a destructed object".into(),
            );
        }
        n
    }

    pub fn snapshot<'g>(&self, r: &Rc<Node>, g: &'g TG) -> TS<'g> {
        let w = cv::rc_word(r);
        let m = mon();
        let a = abs(m, w);
        let i = m.op_begin(self.t, "snapshot", [a, g.gid as i64, 0, 0]);
        let s = r.snapshot(&g.g);
        let m = mon();
        m.hold(self.t, g.gid, cv::snapshot_word(&s), false);
        m.op_end(i, [a, 0, 0, 0]);
        TS { s, gid: g.gid }
    }

    pub fn downgrade(&self, r: &Rc<Node>) -> Weak<Node> {
        let w = cv::rc_word(r);
        let m = mon();
        let a = abs(m, w);
        let i = m.op_begin(self.t, "downgrade", [a, 0, 0, 0]);
        let wk = r.downgrade();
        let m = mon();
        m.acquire(cv::weak_word(&wk), true);
        m.op_end(i, [a, 0, 0, 0]);
        wk
    }

    pub fn with_tag(&self, r: Rc<Node>, tag: usize) -> Rc<Node> {
        // No shared access: plain bookkeeping.
        r.with_tag(tag)
    }

    // ------------------------------------------------------------------ AtomicRc

    pub fn load<'g>(&self, cell: &AtomicRc<Node>, g: &'g TG) -> TS<'g> {
        let m = mon();
        let c = cell_id(m, cell as *const _ as usize);
        let i = m.op_begin(self.t, "load", [c, 0, 0, 0]);
        let s = cell.load(SC, &g.g);
        let w = cv::snapshot_word(&s);
        let m = mon();
        m.hold(self.t, g.gid, w, false);
        let a = abs(m, w);
        m.op_end(i, [a, 0, 0, 0]);
        TS { s, gid: g.gid }
    }

    pub fn store(&self, cell: &AtomicRc<Node>, r: Rc<Node>, g: &TG) {
        let w = cv::rc_word(&r);
        let m = mon();
        let c = cell_id(m, cell as *const _ as usize);
        let a = abs(m, w);
        let i = m.op_begin(self.t, "store", [c, a, 0, 0]);
        m.cur_op[self.t] = CurOp::Store;
        m.to_inflight(self.t, w, false);
        cell.store(r, SC, &g.g);
        let m = mon();
        m.settle(self.t, false, false);
        m.op_end(i, [0; 4]);
    }

    pub fn swap(&self, cell: &AtomicRc<Node>, r: Rc<Node>) -> Rc<Node> {
        let w = cv::rc_word(&r);
        let m = mon();
        let c = cell_id(m, cell as *const _ as usize);
        let a = abs(m, w);
        let i = m.op_begin(self.t, "swap", [c, a, 0, 0]);
        m.cur_op[self.t] = CurOp::SwapLike;
        m.to_inflight(self.t, w, false);
        let old = cell.swap(r, SC);
        let m = mon();
        m.settle(self.t, false, true);
        let ao = abs(m, cv::rc_word(&old));
        m.op_end(i, [ao, 0, 0, 0]);
        old
    }

    #[allow(clippy::type_complexity)]
    pub fn cas<'g>(
        &self,
        cell: &AtomicRc<Node>,
        exp: TS<'g>,
        des: Rc<Node>,
        g: &'g TG,
        weak: bool,
    ) -> Result<Rc<Node>, (Rc<Node>, TS<'g>)> {
        let w = cv::rc_word(&des);
        let m = mon();
        let c = cell_id(m, cell as *const _ as usize);
        let (ae, ad) = (abs(m, cv::snapshot_word(&exp.s)), abs(m, w));
        let i = m.op_begin(
            self.t,
            if weak { "cas_weak" } else { "cas" },
            [c, ae, ad, 0],
        );
        m.cur_op[self.t] = CurOp::SwapLike;
        m.to_inflight(self.t, w, false);
        let r = if weak {
            cell.compare_exchange_weak(exp.s, des, SC, SC, &g.g)
        } else {
            cell.compare_exchange(exp.s, des, SC, SC, &g.g)
        };
        let m = mon();
        match r {
            Ok(old) => {
                m.settle(self.t, false, true);
                let ao = abs(m, cv::rc_word(&old));
                m.op_end(i, [1, ao, 0, 0]);
                Ok(old)
            }
            Err(e) => {
                m.settle(self.t, true, false);
                let cw = cv::snapshot_word(&e.current);
                m.hold(self.t, g.gid, cw, false);
                let (ac, adb) = (abs(m, cw), abs(m, cv::rc_word(&e.desired)));
                m.op_end(i, [0, ac, adb, 0]);
                Err((
                    e.desired,
                    TS {
                        s: e.current,
                        gid: g.gid,
                    },
                ))
            }
        }
    }

    pub fn cas_tag<'g>(
        &self,
        cell: &AtomicRc<Node>,
        exp: TS<'g>,
        tag: usize,
        g: &'g TG,
    ) -> Result<TS<'g>, (TS<'g>, TS<'g>)> {
        let m = mon();
        let c = cell_id(m, cell as *const _ as usize);
        let ae = abs(m, cv::snapshot_word(&exp.s));
        let i = m.op_begin(self.t, "cas_tag", [c, ae, tag as i64, 0]);
        m.cur_op[self.t] = CurOp::Tag;
        let r = cell.compare_exchange_tag(exp.s, tag, SC, SC, &g.g);
        let m = mon();
        match r {
            Ok(prev) => {
                let pw = cv::snapshot_word(&prev);
                m.hold(self.t, g.gid, pw, false);
                let ap = abs(m, pw);
                m.op_end(i, [1, ap, 0, 0]);
                Ok(TS {
                    s: prev,
                    gid: g.gid,
                })
            }
            Err(e) => {
                let (dw, cw) = (
                    cv::snapshot_word(&e.desired),
                    cv::snapshot_word(&e.current),
                );
                m.hold(self.t, g.gid, cw, false);
                let (ac, ad) = (abs(m, cw), abs(m, dw));
                m.op_end(i, [0, ac, ad, 0]);
                Err((
                    TS {
                        s: e.desired,
                        gid: g.gid,
                    },
                    TS {
                        s: e.current,
                        gid: g.gid,
                    },
                ))
            }
        }
    }

    // ------------------------------------------------------------------ Snapshot

    pub fn counted(&self, s: TS<'_>) -> Rc<Node> {
        let w = cv::snapshot_word(&s.s);
        let m = mon();
        let a = abs(m, w);
        let i = m.op_begin(self.t, "counted", [a, 0, 0, 0]);
        let r = s.s.counted();
        let m = mon();
        m.acquire(cv::rc_word(&r), false);
        m.op_end(i, [a, 0, 0, 0]);
        r
    }

    /// Dereferences a snapshot inside its critical section and checks that the object is alive.
    pub fn sderef(&self, s: TS<'_>) -> i64 {
        let w = cv::snapshot_word(&s.s);
        let m = mon();
        let a = abs(m, w);
        let i = m.op_begin(self.t, "sderef", [a, 0, 0, 0]);
        sched::point(sched::CLASS_DEREF, 0);
        let res = match s.s.as_ref() {
            None => -1,
            Some(n) => {
                let magic = n.magic.load(Ordering::Relaxed);
                if magic != LIVE {
                    mon().violate(
                        "C02",
                        "snapshot-deref-dead",
                        format!(
                            "dereferencing a Snapshot inside its critical section read a destructed object (magic {:#x})",
                            magic
                        ),
                    );
                }
                n.id as i64
            }
        };
        mon().op_end(i, [res, 0, 0, 0]);
        res
    }

    /// Reference to the node behind a snapshot (for reaching its links).
    pub fn snode<'g>(&self, s: TS<'g>) -> &'g Node {
        let n = unsafe { s.s.deref() };
        if n.magic.load(Ordering::Relaxed) != LIVE {
            mon().violate(
                "C02",
                "snapshot-deref-dead",
                "reaching a link through a Snapshot read a destructed object".into(),
            );
        }
        n
    }

    pub fn sdowngrade<'g>(&self, s: TS<'g>) -> TWS<'g> {
        let ws = s.s.downgrade();
        mon().hold(self.t, s.gid, cv::weak_snapshot_word(&ws), true);
        TWS { s: ws, gid: s.gid }
    }

    // ------------------------------------------------------------------ Weak

    pub fn wclone(&self, w: &Weak<Node>) -> Weak<Node> {
        let ww = cv::weak_word(w);
        let m = mon();
        let a = abs(m, ww);
        let i = m.op_begin(self.t, "wclone", [a, 0, 0, 0]);
        let c = w.clone();
        let m = mon();
        m.acquire(ww, true);
        m.op_end(i, [a, 0, 0, 0]);
        c
    }

    pub fn wdrop(&self, w: Weak<Node>) {
        let ww = cv::weak_word(&w);
        let m = mon();
        let a = abs(m, ww);
        let i = m.op_begin(self.t, "wdrop", [a, 0, 0, 0]);
        m.release(ww, true);
        drop(w);
        mon().op_end(i, [0; 4]);
    }

    fn check_upgrade(m: &mut Monitor, word: usize, success: bool, null_result: bool, what: &str) {
        match m.obj_of_word(word) {
            None => {
                if cv::word_addr::<Node>(word) == 0 && !(success && null_result) {
                    m.violate(
                        "C05",
                        "null-upgrade",
                        format!("{} of a null weak pointer did not yield a null pointer", what),
                    );
                }
            }
            Some(o) => {
                let x = &mut m.objs[o as usize];
                let (decided, failed_before) = (x.decided, x.upgrade_failed);
                if !success {
                    x.upgrade_failed = true;
                }
                if success && decided {
                    let depth = m.objs[o as usize].decided_depth;
                    m.violate(
                        "C05",
                        "resurrection",
                        format!(
                            "{} returned a reference to o{} after its destruction had begun (cascade depth {})",
                            what, o, depth
                        ),
                    );
                }
                if success && failed_before {
                    m.violate(
                        "C05",
                        "success-after-failure",
                        format!("{} of o{} succeeded after an earlier upgrade had failed", what, o),
                    );
                }
                if !success && !decided {
                    m.violate(
                        "C05",
                        "spurious-failure",
                        format!(
                            "{} of o{} failed although its destruction has not begun",
                            what, o
                        ),
                    );
                }
                if success {
                    m.cover("upgrade-some");
                } else {
                    m.cover("upgrade-none");
                }
            }
        }
    }

    pub fn upgrade(&self, w: &Weak<Node>) -> Option<Rc<Node>> {
        let ww = cv::weak_word(w);
        let m = mon();
        let a = abs(m, ww);
        let i = m.op_begin(self.t, "upgrade", [a, 0, 0, 0]);
        let r = w.upgrade();
        let m = mon();
        let null_result = r.as_ref().map(|x| x.is_null()).unwrap_or(false);
        Self::check_upgrade(m, ww, r.is_some(), null_result, "Weak::upgrade");
        if let Some(rc) = &r {
            m.acquire(cv::rc_word(rc), false);
        }
        m.op_end(i, [r.is_some() as i64, a, 0, 0]);
        r
    }

    pub fn wsnapshot<'g>(&self, w: &Weak<Node>, g: &'g TG) -> TWS<'g> {
        let s = w.snapshot(&g.g);
        mon().hold(self.t, g.gid, cv::weak_snapshot_word(&s), true);
        TWS { s, gid: g.gid }
    }

    // ------------------------------------------------------------------ AtomicWeak

    pub fn wload<'g>(&self, cell: &AtomicWeak<Node>, g: &'g TG) -> TWS<'g> {
        let m = mon();
        let c = cell_id(m, cell as *const _ as usize);
        let i = m.op_begin(self.t, "wload", [c, 0, 0, 0]);
        let s = cell.load(SC, &g.g);
        let w = cv::weak_snapshot_word(&s);
        let m = mon();
        m.hold(self.t, g.gid, w, true);
        let a = abs(m, w);
        m.op_end(i, [a, 0, 0, 0]);
        TWS { s, gid: g.gid }
    }

    pub fn wstore(&self, cell: &AtomicWeak<Node>, w: Weak<Node>, g: &TG) {
        let ww = cv::weak_word(&w);
        let m = mon();
        let c = cell_id(m, cell as *const _ as usize);
        let a = abs(m, ww);
        let i = m.op_begin(self.t, "wstore", [c, a, 0, 0]);
        m.cur_op[self.t] = CurOp::Store;
        m.to_inflight(self.t, ww, true);
        cell.store(w, SC, &g.g);
        let m = mon();
        m.settle(self.t, false, false);
        m.op_end(i, [0; 4]);
    }

    pub fn wswap(&self, cell: &AtomicWeak<Node>, w: Weak<Node>) -> Weak<Node> {
        let ww = cv::weak_word(&w);
        let m = mon();
        let c = cell_id(m, cell as *const _ as usize);
        let a = abs(m, ww);
        let i = m.op_begin(self.t, "wswap", [c, a, 0, 0]);
        m.cur_op[self.t] = CurOp::SwapLike;
        m.to_inflight(self.t, ww, true);
        let old = cell.swap(w, SC);
        let m = mon();
        m.settle(self.t, false, true);
        let ao = abs(m, cv::weak_word(&old));
        m.op_end(i, [ao, 0, 0, 0]);
        old
    }

    #[allow(clippy::type_complexity)]
    pub fn wcas<'g>(
        &self,
        cell: &AtomicWeak<Node>,
        exp: TWS<'g>,
        des: Weak<Node>,
        g: &'g TG,
        weak: bool,
    ) -> Result<Weak<Node>, (Weak<Node>, TWS<'g>)> {
        let w = cv::weak_word(&des);
        let m = mon();
        let c = cell_id(m, cell as *const _ as usize);
        let (ae, ad) = (abs(m, cv::weak_snapshot_word(&exp.s)), abs(m, w));
        let i = m.op_begin(
            self.t,
            if weak { "wcas_weak" } else { "wcas" },
            [c, ae, ad, 0],
        );
        m.cur_op[self.t] = CurOp::SwapLike;
        m.to_inflight(self.t, w, true);
        let r = if weak {
            cell.compare_exchange_weak(exp.s, des, SC, SC, &g.g)
        } else {
            cell.compare_exchange(exp.s, des, SC, SC, &g.g)
        };
        let m = mon();
        match r {
            Ok(old) => {
                m.settle(self.t, false, true);
                let ao = abs(m, cv::weak_word(&old));
                m.op_end(i, [1, ao, 0, 0]);
                Ok(old)
            }
            Err(e) => {
                m.settle(self.t, true, false);
                let cw = cv::weak_snapshot_word(&e.current);
                m.hold(self.t, g.gid, cw, true);
                let (ac, adb) = (abs(m, cw), abs(m, cv::weak_word(&e.desired)));
                m.op_end(i, [0, ac, adb, 0]);
                Err((
                    e.desired,
                    TWS {
                        s: e.current,
                        gid: g.gid,
                    },
                ))
            }
        }
    }

    pub fn wcas_tag<'g>(
        &self,
        cell: &AtomicWeak<Node>,
        exp: TWS<'g>,
        tag: usize,
        g: &'g TG,
    ) -> Result<TWS<'g>, (TWS<'g>, TWS<'g>)> {
        let m = mon();
        let c = cell_id(m, cell as *const _ as usize);
        let ae = abs(m, cv::weak_snapshot_word(&exp.s));
        let i = m.op_begin(self.t, "wcas_tag", [c, ae, tag as i64, 0]);
        m.cur_op[self.t] = CurOp::Tag;
        let r = cell.compare_exchange_tag(exp.s, tag, SC, SC, &g.g);
        let m = mon();
        match r {
            Ok(prev) => {
                let pw = cv::weak_snapshot_word(&prev);
                m.hold(self.t, g.gid, pw, true);
                let ap = abs(m, pw);
                m.op_end(i, [1, ap, 0, 0]);
                Ok(TWS {
                    s: prev,
                    gid: g.gid,
                })
            }
            Err(e) => {
                let (dw, cw) = (
                    cv::weak_snapshot_word(&e.desired),
                    cv::weak_snapshot_word(&e.current),
                );
                m.hold(self.t, g.gid, cw, true);
                let (ac, ad) = (abs(m, cw), abs(m, dw));
                m.op_end(i, [0, ac, ad, 0]);
                Err((
                    TWS {
                        s: e.desired,
                        gid: g.gid,
                    },
                    TWS {
                        s: e.current,
                        gid: g.gid,
                    },
                ))
            }
        }
    }

    // ------------------------------------------------------------------ WeakSnapshot

    pub fn ws_upgrade<'g>(&self, ws: TWS<'g>) -> Option<TS<'g>> {
        let w = cv::weak_snapshot_word(&ws.s);
        let m = mon();
        let a = abs(m, w);
        let i = m.op_begin(self.t, "ws_upgrade", [a, 0, 0, 0]);
        let r = ws.s.upgrade();
        let m = mon();
        let null_result = r.as_ref().map(|x| x.is_null()).unwrap_or(false);
        Self::check_upgrade(m, w, r.is_some(), null_result, "WeakSnapshot::upgrade");
        if let Some(s) = &r {
            m.hold(self.t, ws.gid, cv::snapshot_word(s), false);
        }
        m.op_end(i, [r.is_some() as i64, a, 0, 0]);
        r.map(|s| TS { s, gid: ws.gid })
    }

    pub fn ws_counted(&self, ws: TWS<'_>) -> Weak<Node> {
        let w = cv::weak_snapshot_word(&ws.s);
        let m = mon();
        let a = abs(m, w);
        let i = m.op_begin(self.t, "ws_counted", [a, 0, 0, 0]);
        let r = ws.s.counted();
        let m = mon();
        m.acquire(cv::weak_word(&r), true);
        m.op_end(i, [a, 0, 0, 0]);
        r
    }

    // ------------------------------------------------------------------ guards

    pub fn pin(&self) -> TG {
        let m = mon();
        let gid = m.new_gid();
        let i = m.op_begin(self.t, "pin", [gid as i64, 0, 0, 0]);
        let g = circ::cs();
        let m = mon();
        m.cs_enter(self.t);
        m.op_end(i, [0; 4]);
        TG { g, gid }
    }

    /// Wraps a guard the driver obtained directly from the library (one that was parked in a
    /// thread-local, say); the thread's other guards, if any, are not known to the monitor.
    pub fn adopt_guard(&self, g: Guard) -> TG {
        let m = mon();
        let gid = m.new_gid();
        m.cs_enter(self.t);
        // the section did not begin here: there is no epoch to hold it to
        m.ebr.cs_pin[self.t] = None;
        TG { g, gid }
    }

    pub fn unpin(&self, g: TG) {
        let m = mon();
        let i = m.op_begin(self.t, "unpin", [g.gid as i64, 0, 0, 0]);
        m.guard_end(self.t, g.gid);
        m.cs_leave(self.t);
        drop(g.g);
        mon().op_end(i, [0; 4]);
    }

    pub fn reactivate(&self, g: &mut TG) {
        let m = mon();
        let i = m.op_begin(self.t, "reactivate", [g.gid as i64, 0, 0, 0]);
        m.guard_end(self.t, g.gid);
        m.cs_restart_begin(self.t);
        g.g.reactivate();
        let m = mon();
        m.cs_restart_end(self.t);
        g.gid = m.new_gid();
        m.op_end(i, [g.gid as i64, 0, 0, 0]);
    }

    pub fn flush(&self, g: &TG) {
        let m = mon();
        let i = m.op_begin(self.t, "flush", [g.gid as i64, 0, 0, 0]);
        g.g.flush();
        mon().op_end(i, [0; 4]);
    }

    /// One collection round: pin, flush, unpin.
    pub fn round(&self) {
        let m = mon();
        let i = m.op_begin(self.t, "round", [0; 4]);
        {
            let g = circ::cs();
            g.flush();
        }
        let e = cv::global_epoch();
        mon().op_end(i, [(e & 0xffff) as i64, 0, 0, 0]);
    }

    pub fn rounds(&self, k: usize) {
        for _ in 0..k {
            self.round();
        }
    }

    /// Rounds until no reference-counting task is pending (at most `max`); returns rounds used.
    pub fn drain(&self, max: usize) -> usize {
        let mut k = 0;
        loop {
            let m = mon();
            if (m.pending[0] == 0 && m.pending[1] == 0 && k >= 1) || k >= max {
                return k;
            }
            self.round();
            k += 1;
        }
    }
}
