//! One execution of a program under the scheduler: fresh collector, fresh threads, monitors on.

use std::collections::BTreeMap;

use circ::verif as cv;

use crate::monitor::{self, Monitor, Violation};
use crate::sched::{self, Dec};
use crate::world::{Ctx, Node, World};

pub type Body = Box<dyn FnOnce(&'static World) + Send>;

#[derive(Clone, Debug, Default, PartialEq, Eq)]
pub struct Params(pub BTreeMap<String, i64>);

impl Params {
    pub fn get(&self, k: &str, default: i64) -> i64 {
        self.0.get(k).copied().unwrap_or(default)
    }
    pub fn set(mut self, k: &str, v: i64) -> Self {
        self.0.insert(k.to_string(), v);
        self
    }
    pub fn parse(s: &str) -> Params {
        let mut p = Params::default();
        for kv in s.split(',') {
            if kv.is_empty() {
                continue;
            }
            let (k, v) = kv.split_once('=').expect("param syntax k=v");
            p.0.insert(k.to_string(), v.parse().expect("param value"));
        }
        p
    }
    pub fn render(&self) -> String {
        self.0
            .iter()
            .map(|(k, v)| format!("{}={}", k, v))
            .collect::<Vec<_>>()
            .join(",")
    }
}

/// Parameter `claim=N` attributes every violation of the run to property `C<N>` (used when a
/// property's statement includes the others, e.g. C05: "the reference they return obeys C01/C02").
pub fn claim_of(p: &Params) -> Option<&'static str> {
    const IDS: [&str; 21] = [
        "", "C01", "C02", "C03", "C04", "C05", "C06", "C07", "C08", "C09", "C10", "C11", "C12",
        "C13", "C14", "C15", "C16", "C17", "C18", "C19", "C20",
    ];
    match p.get("claim", 0) {
        n if (1..=20).contains(&n) => Some(IDS[n as usize]),
        _ => None,
    }
}

/// Parameter `noclaim=1` runs a family that normally attributes everything to the property it
/// was written for with the monitor's native attribution instead (so that another property's
/// check can reuse the family and still report only what belongs to it).
pub fn unclaim(p: &Params, mut prog: Program) -> Program {
    crate::world::DEFAULT_POP.store(p.get("dpop", 0b11) as u8, std::sync::atomic::Ordering::Relaxed);
    crate::scen::ebr::SURVIVOR_NESTS.store(p.get("nested", 0) != 0, std::sync::atomic::Ordering::Relaxed);
    if p.get("noclaim", 0) != 0 {
        prog.claim = None;
    }
    if let Some(c) = claim_of(p) {
        prog.claim = Some(c);
    }
    prog
}

pub struct Program {
    /// classes of yield points that are scheduling points in the concurrent phase
    pub classes: u8,
    /// initial global epoch of the execution's collector
    pub e0: usize,
    pub setup: Option<Body>,
    pub threads: Vec<Body>,
    pub post: Option<Body>,
    /// rounds the final drain may use before a pending task counts as leaked
    pub drain_max: usize,
    pub stack: usize,
    pub bag_cap: usize,
    pub manual_interval: usize,
    pub quarantine: bool,
    /// run the C04 end-state check
    pub check_quiescent: bool,
    /// custom end-of-execution check (histories etc.); runs on the controller, must not call circ
    pub finish: Option<Box<dyn FnOnce(&mut Monitor)>>,
    pub state_points: bool,
    /// attribute every violation found in this program to this property (the scenario exists
    /// to decide it); the original classification stays in the detail text
    pub claim: Option<&'static str>,
    /// the program uses the default collector / the Rc world (false for scenarios on a private
    /// collector: then the common epilogue, which pins in the default collector, is skipped)
    pub rc_world: bool,
}

impl Default for Program {
    fn default() -> Self {
        Program {
            classes: sched::RC,
            e0: 0,
            setup: None,
            threads: Vec::new(),
            post: None,
            drain_max: 60,
            stack: sched::stack_size(),
            bag_cap: 64,
            manual_interval: 64,
            quarantine: true,
            check_quiescent: true,
            finish: None,
            state_points: true,
            claim: None,
            rc_world: true,
        }
    }
}

#[derive(Debug, Default)]
pub struct ExecResult {
    pub decisions: Vec<Dec>,
    pub diverged: bool,
    pub violation: Option<Violation>,
    pub hash: u64,
    pub outcome: u64,
    pub steps: u64,
    pub switches: u64,
    pub events: u64,
    pub cover: Vec<(String, u64)>,
    pub notes: Vec<String>,
    /// violations of other properties that were noted without stopping the execution
    pub foreign: Vec<String>,
    pub panics: Vec<(usize, String)>,
    pub timed_out: bool,
    pub trace: Option<Vec<String>>,
    /// the process state is not reusable (threads left parked, garbage left behind)
    pub dirty: bool,
}

/// Empties the world the way a program that ends "by releasing all its references" would.
pub fn release_world(c: &Ctx, w: &'static World) {
    let g = c.pin();
    for r in w.roots.iter() {
        c.store(r, circ::Rc::null(), &g);
    }
    for r in w.wroots.iter() {
        c.wstore(r, circ::Weak::null(), &g);
    }
    c.unpin(g);
    for s in w.rc.iter() {
        if let Some(r) = s.try_take() {
            c.drop_rc(r);
        }
    }
    for s in w.weak.iter() {
        if let Some(x) = s.try_take() {
            c.wdrop(x);
        }
    }
}

pub fn run_one(prog: Program, prefix: &[u8], trace: bool, focus: Option<&str>) -> ExecResult {
    let mut m = Monitor::new(trace);
    m.quarantine_on = prog.quarantine;
    m.check_state_points = prog.state_points;
    m.claim = prog.claim;
    m.focus = focus.map(|s| s.to_string());
    monitor::install(m);

    let collector = cv::ebr::Collector::new();
    cv::ebr::set_initial_epoch(&collector, prog.e0);
    {
        let m = monitor::mon();
        m.global_epoch_addr = cv::ebr::global_epoch_addr(&collector);
        m.global_epoch = Some(prog.e0);
    }
    cv::set_bag_capacity(prog.bag_cap);
    cv::set_manual_interval(prog.manual_interval);
    let prev = cv::set_default_collector(Some(collector.clone()));
    assert!(prev.is_none());

    let world: &'static World = Box::leak(World::new());
    sched::begin_execution(prefix);

    let mut res = ExecResult::default();
    let mut stop = false;
    let watchdog = 20;

    let mut run = |mask: u8, bodies: Vec<Box<dyn FnOnce() + Send>>, res: &mut ExecResult| -> bool {
        let r = sched::run_phase(mask, bodies, prog.stack, watchdog);
        res.panics.extend(r.panics);
        if r.timed_out {
            res.timed_out = true;
        }
        r.timed_out || r.halted
    };

    if let Some(setup) = prog.setup {
        stop = run(0, vec![Box::new(move || setup(world))], &mut res);
    }
    if !stop && !prog.threads.is_empty() {
        let bodies: Vec<Box<dyn FnOnce() + Send>> = prog
            .threads
            .into_iter()
            .map(|b| Box::new(move || b(world)) as Box<dyn FnOnce() + Send>)
            .collect();
        stop = run(prog.classes, bodies, &mut res);
    }
    if !stop {
        let post = prog.post;
        let drain_max = prog.drain_max;
        let rc_world = prog.rc_world;
        stop = run(
            0,
            vec![Box::new(move || {
                if let Some(p) = post {
                    p(world);
                }
                if rc_world {
                    let c = Ctx::new();
                    release_world(&c, world);
                    let used = c.drain(drain_max);
                    monitor::mon().mix_outcome(0x77 ^ ((used as u64) << 8));
                }
            })],
            &mut res,
        );
    }
    let (decisions, diverged) = sched::end_execution();
    res.decisions = decisions;
    res.diverged = diverged;
    res.steps = sched_steps();
    res.switches = sched_switches();

    if !stop && res.panics.is_empty() {
        let m = monitor::mon();
        if prog.check_quiescent {
            m.check_quiescent(true);
        }
        if m.violation.is_none() {
            if let Some(f) = prog.finish {
                f(m);
            }
        }
    }

    let m = monitor::take().unwrap();
    res.violation = m.violation.clone();
    res.hash = m.hash;
    res.outcome = m.outcome;
    res.events = m.events;
    res.notes = m.notes.clone();
    res.foreign = m.foreign.iter().map(|(p, k)| format!("{}:{}", p, k)).collect();
    res.trace = m.trace.clone();
    let mut cover: Vec<(String, u64)> = m.cover.iter().map(|(k, v)| (k.to_string(), *v)).collect();
    cover.sort();
    res.cover = cover;

    let pending = m.pending[0] != 0 || m.pending[1] != 0;
    res.dirty = stop || res.violation.is_some() || pending || !res.panics.is_empty();
    if res.dirty {
        // Threads may be parked mid-operation and deferred tasks may still reference
        // quarantined blocks: nothing is torn down, the worker process exits after reporting.
        return res;
    }

    // Tear down: the world holds only null links now, every thread has exited.
    unsafe { drop(Box::from_raw(world as *const World as *mut World)) };
    drop(cv::set_default_collector(None));
    drop(collector);
    for &a in m.quarantined.iter() {
        unsafe { cv::free_quarantined::<Node>(a) };
    }
    res
}

fn sched_steps() -> u64 {
    sched::steps()
}
fn sched_switches() -> u64 {
    sched::switches()
}
