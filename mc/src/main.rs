mod exec;
mod hooks;
mod lin;
mod c07;
mod checks;
mod monitor;
mod pure;
mod runner;
mod sched;
mod scen;
mod worker;
mod world;

use exec::Params;

/// Single-process exploration, for development: DFS over schedules with a preemption bound.
fn explore(name: &str, params: &Params, bound: usize, trace_first: bool) {
    let def = scen::find(name).expect("unknown scenario");
    let mut stack: Vec<Vec<u8>> = vec![vec![]];
    let mut n = 0u64;
    let mut hashes = std::collections::HashSet::new();
    let mut outcomes = std::collections::HashSet::new();
    let t0 = std::time::Instant::now();
    let mut maxdec = 0;
    while let Some(prefix) = stack.pop() {
        let prog = exec::unclaim(params, (def.build)(params));
        let r = exec::run_one(prog, &prefix, trace_first && n == 0, exec::claim_of(&Params::default().set("claim", params.get("focus", 0))));
        n += 1;
        hashes.insert(r.hash);
        outcomes.insert(r.outcome);
        maxdec = maxdec.max(r.decisions.len());
        if let Some(t) = &r.trace {
            for l in t {
                println!("{}", l);
            }
        }
        if r.diverged || r.timed_out || !r.panics.is_empty() {
            println!("MACHINERY diverged={} timed_out={} panics={:?} prefix={:?}", r.diverged, r.timed_out, r.panics, prefix);
            std::process::exit(2);
        }
        if let Some(v) = &r.violation {
            let choices: Vec<u8> = r.decisions.iter().map(|d| d.choice).collect();
            println!("VIOLATION after {} executions: {:?}\n choices={:?}", n, v, choices);
            std::process::exit(1);
        }
        let pre: usize = r.decisions[..prefix.len()]
            .iter()
            .filter(|d| d.preemptible && d.choice != 0)
            .count();
        for i in (prefix.len()..r.decisions.len()).rev() {
            let d = r.decisions[i];
            let cost = pre + d.preemptible as usize;
            if cost > bound {
                continue;
            }
            for alt in (1..d.n).rev() {
                let mut p: Vec<u8> = r.decisions[..i].iter().map(|d| d.choice).collect();
                p.push(alt);
                stack.push(p);
            }
        }
    }
    println!(
        "explored {} executions, {} distinct traces, {} outcomes, max decisions {}, {:.2}s ({:.0} us/exec)",
        n,
        hashes.len(),
        outcomes.len(),
        maxdec,
        t0.elapsed().as_secs_f64(),
        t0.elapsed().as_secs_f64() * 1e6 / n as f64
    );
}

fn main() {
    let args: Vec<String> = std::env::args().collect();
    if args.get(1).map(|s| s.as_str()) == Some("c07case") {
        // no hooks, no monitors: the plain library
        let a: Vec<usize> = args[2..6].iter().map(|s| s.parse().unwrap()).collect();
        std::process::exit(c07::run_case(a[0], a[1], a[2], a[3]));
    }
    hooks::install();
    match args.get(1).map(|s| s.as_str()) {
        Some("explore") => {
            let name = &args[2];
            let params = Params::parse(args.get(3).map(|s| s.as_str()).unwrap_or(""));
            let bound: usize = args.get(4).map(|s| s.parse().unwrap()).unwrap_or(2);
            let trace = args.get(5).is_some();
            pin_to_core(0);
            explore(name, &params, bound, trace);
        }
        Some("worker") => {
            let params = Params::parse(&args[3]);
            worker::serve(&args[2], &params, args[4].parse().unwrap_or(0));
        }
        Some("check") => {
            let seed = std::env::var("VERIF_SEED").ok().and_then(|s| s.parse().ok()).unwrap_or(0);
            let code = checks::check(&args[2], args.get(3).map(|s| s.as_str()).unwrap_or("quick"), seed);
            std::process::exit(code);
        }
        Some("replay") => {
            let s = std::fs::read_to_string(&args[2]).expect("replay file");
            let v: serde_json::Value = serde_json::from_str(&s).expect("replay json");
            if v["engine"] == "E" {
                std::process::exit(pure::replay(&v));
            }
            let params = Params::parse(v["params"].as_str().unwrap_or(""));
            let scenario = v["scenario"].as_str().unwrap();
            let case = v["case"].as_i64().unwrap_or(0);
            let prefix: Vec<u8> = v["choices"].as_str().unwrap_or("").bytes().map(|b| b - b'0').collect();
            if v["dbg"].as_bool() == Some(true) && std::env::current_exe().ok() != Some(std::path::PathBuf::from(runner::DBG_EXE)) {
                // recorded in the build with debug assertions: replay there
                let st = std::process::Command::new(runner::DBG_EXE).args(["replay", &args[2]]).status().expect("dbgassert binary");
                match st.code() {
                    Some(c) => std::process::exit(c),
                    None => {
                        println!("REPRODUCED property={} kind=process-abort : the replaying process died ({})", v["property"], st);
                        std::process::exit(1);
                    }
                }
            }
            let def = scen::find(scenario).expect("unknown scenario");
            pin_to_core(0);
            let prog = exec::unclaim(&params, (def.build)(&params.clone().set("case", case)));
            let r = exec::run_one(prog, &prefix, true, exec::claim_of(&Params::default().set("claim", params.get("focus", 0))));
            for l in r.trace.clone().unwrap_or_default() {
                println!("{}", l);
            }
            println!("scenario {} [{}] case {} choices {}", scenario, params.render(), case, v["choices"]);
            match &r.violation {
                Some(x) => {
                    println!("REPRODUCED property={} kind={} : {} [{}] trace_hash={:016x} (recorded {})", x.prop, x.kind, x.detail, x.op, r.hash, v["trace_hash"]);
                    unsafe { libc::_exit(1) };
                }
                None => {
                    println!("no violation on this tree (trace_hash={:016x}, recorded {})", r.hash, v["trace_hash"]);
                    unsafe { libc::_exit(0) };
                }
            }
        }
        Some("purechild") => {
            std::process::exit(pure::child(&args[2]));
        }
        Some("list") => {
            for s in scen::all() {
                println!("{:36} {}", s.name, s.about);
            }
        }
        _ => {
            eprintln!("usage: circ-mc explore <scenario> <params> <bound>");
            std::process::exit(2);
        }
    }
}

pub fn pin_to_core(core: usize) {
    unsafe {
        let mut set: libc::cpu_set_t = std::mem::zeroed();
        libc::CPU_SET(core, &mut set);
        libc::sched_setaffinity(0, std::mem::size_of::<libc::cpu_set_t>(), &set);
    }
}
